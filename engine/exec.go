package main

// Symbolic interpreter over go/ssa.

import (
	"fmt"
	"sort"
	"strconv"
	"go/constant"
	"go/token"
	"go/types"
	"os"
	"strings"

	"golang.org/x/tools/go/ssa"
)

type Config struct {
	Unroll     int // max visits of a loop header per frame
	MaxDepth   int
	StrCap     int // bound for []byte -> string conversions and opaque strings
	AppendCap  int // bound for symbolic-length chunk appends
	MaxPaths   int
	TrackWrite bool
}

type Obligation struct {
	ID       string
	Kind     string // assert | panic | alloc | unwind
	Site     string
	Result   string // holds | violated | inconclusive | spurious
	Model    map[string]interface{}
	Replay   string
	Note     string
	Harness  string
	Confirmd bool
	PrefScore int `json:"-"`
	Tries     int `json:"-"`
}

type CoverRec struct {
	ID      string
	Reached bool
	Model   map[string]interface{}
	Native  bool
	SymOnly bool // refers to stub-internal ghost state that does not exist natively
}

type NDVar struct {
	Name string
	Kind string // bool, u8,u16,u32,u64,i32,i64, bytes, string
	T    *Term
	Len  *Term
	Arr  *Term
	B    []*Term
	W    int
	Sign bool
}

type Engine struct {
	prog      *ssa.Program
	pkgs      map[string]*ssa.Package
	solver    *Solver
	cfg       Config
	intr      map[string]Intrinsic
	globalIDs map[*ssa.Global]ObjID
	ownPkgs   map[string]bool

	nd      map[string]*NDVar
	ndOrder []string

	Obls        []*Obligation
	Covers      map[string]*CoverRec
	CoverOrder  []string
	Unwinding   []string
	Inconcl     []string
	FuncsSeen   map[string]int
	Instrs      int
	States      int
	Merges      int
	PathsEnded  int
	Infeasible  int
	harness     string
	curFn       []*ssa.Function
	fakeTypes   map[string]types.Type
	regexCache  map[string]*regexProg
	exclude     []*Term // known-finding regions excluded from search (as assumptions)
	findModels  bool
	blockRounds int
	permuteMaps bool
	trackAllocs bool
	allocSites  []string
	params      map[string]int
	smtDir      string
	extra       map[string]interface{}
	lastPrefScore int
	prefs       []*Term // soft preferences for counterexample models (ndPrefer)
	siteIDs     map[ssa.Instruction]int
	joinMerge   bool
	loopObl     string
	rpoCache    map[*ssa.Function][]int
	liveCache   map[*ssa.Function][]map[ssa.Value]bool
	JoinMerges  int
	lazyBranch  bool
	cutFn       string // ndAtFirstLoop: function whose first loop header ends the path
	fnStats     map[string][3]int
	panicObls   bool
	panicSeen   map[string]bool
	replayer    func(h string, model map[string]interface{}) (failed []string, panicked string, covers []string, err error)
}

type Intrinsic func(e *Engine, c *CallCtx) []Outcome

type CallCtx struct {
	St    *State
	Fn    *ssa.Function
	Args  []Value
	Site  string
	Depth int
	Instr ssa.Instruction
}

type Frame struct {
	fn     *ssa.Function
	locals map[ssa.Value]Value
	block  *ssa.BasicBlock
	prev   *ssa.BasicBlock
	idx    int
	loops  map[int]int
	defers []deferred
	jumped bool
	entered bool // block-entry work (phis, loop accounting) done for the current block
}

type deferred struct {
	fn   Value
	args []Value
	call *ssa.CallCommon
}

func (f *Frame) fork() *Frame {
	n := &Frame{fn: f.fn, locals: make(map[ssa.Value]Value, len(f.locals)+8), block: f.block, prev: f.prev, idx: f.idx, loops: make(map[int]int, len(f.loops)), entered: f.entered}
	for k, v := range f.locals {
		n.locals[k] = v
	}
	for k, v := range f.loops {
		n.loops[k] = v
	}
	n.defers = append([]deferred(nil), f.defers...)
	return n
}

type item struct {
	st *State
	fr *Frame
}

type pathCtx struct {
	e        *Engine
	work     *[]*item
	outs     *[]Outcome
	depth    int
	entryLen int
}

func siteOf(in ssa.Instruction) string {
	if in == nil {
		return "?"
	}
	fn := in.Parent()
	pos := in.Pos()
	name := "?"
	if fn != nil {
		name = fn.String()
		if !pos.IsValid() {
			// fall back to function position
			pos = fn.Pos()
		}
		if fn.Prog != nil && pos.IsValid() {
			p := fn.Prog.Fset.Position(pos)
			f := p.Filename
			if i := strings.LastIndex(f, "/"); i >= 0 {
				f = f[i+1:]
			}
			return fmt.Sprintf("%s@%s:%d", name, f, p.Line)
		}
	}
	return name
}

// isLoopHeader: some predecessor is dominated by the block (a back edge ends here)
func isLoopHeader(b *ssa.BasicBlock) bool {
	for _, p := range b.Preds {
		if b.Dominates(p) {
			return true
		}
	}
	return false
}

// ---------- feasibility / assumptions ----------

func (e *Engine) feasible(st *State, extra *Term) Result {
	extra = st.Simp(extra)
	if extra.IsFalse() {
		return Unsat
	}
	if extra.IsTrue() {
		return Sat // pc itself assumed feasible
	}
	as := append(append([]*Term(nil), st.pc...), extra)
	as = append(as, e.exclude...)
	r := e.solver.Check(as)
	return r
}

// branch splits on cond; returns which sides are feasible (unknown counts as feasible).
func (e *Engine) branch(st *State, cond *Term) (t, f bool) {
	cond = st.Simp(cond)
	if cond.IsTrue() {
		return true, false
	}
	if cond.IsFalse() {
		return false, true
	}
	rt := e.feasible(st, cond)
	if rt == Unsat {
		return false, true // the path condition itself is feasible, so the other side must be
	}
	rf := e.feasible(st, Not(cond))
	return rt != Unsat, rf != Unsat
}

// panicIf records a panic outcome if cond is feasible, and constrains st to ¬cond.
// Returns false when the non-panicking continuation is infeasible.
func (pc *pathCtx) panicIf(it *item, cond *Term, kind string, in ssa.Instruction) bool {
	cond = it.st.Simp(cond)
	pc.e.notePanicSite(kind, in)
	if cond.IsFalse() {
		return true
	}
	t, f := pc.e.branch(it.st, cond)
	if t {
		ps := it.st.Fork()
		ps.Assume(cond)
		*pc.outs = append(*pc.outs, Outcome{St: ps, Panic: &PanicInfo{Kind: kind, Site: siteOf(in)}})
	}
	if !f {
		return false
	}
	it.st.Assume(Not(cond))
	return true
}

// notePanicSite registers the implicit obligation "this instruction never panics" (it stays
// "holds" unless a feasible panicking path reaches the harness top level).
func (e *Engine) notePanicSite(kind string, in ssa.Instruction) {
	if !e.panicObls {
		return
	}
	fn := in.Parent()
	if fn != nil && fn.Pkg == nil && fn.Origin() != nil {
		fn = fn.Origin() // instantiation of a generic function
	}
	if fn == nil || fn.Pkg == nil || !e.ownPkgs[fn.Pkg.Pkg.Path()] || strings.HasPrefix(fn.Name(), "verif") || strings.HasPrefix(fn.Name(), "Verif") || strings.HasPrefix(fn.Name(), "nd") {
		return
	}
	if !e.panicObls {
		return
	}
	site := siteOf(in)
	if strings.Contains(site, "@zz_verif") {
		return // harness code
	}
	id := kind + "@" + site
	if e.panicSeen == nil {
		e.panicSeen = map[string]bool{}
	}
	if e.panicSeen[id] {
		return
	}
	e.panicSeen[id] = true
	e.Obls = append(e.Obls, &Obligation{ID: id, Kind: "panic", Site: site, Result: "holds", Harness: e.harness})
}

// ---------- calls ----------

func (e *Engine) CallFn(st *State, fn *ssa.Function, args []Value, in ssa.Instruction, depth int) []Outcome {
	if depth > e.cfg.MaxDepth {
		unsupported("call depth exceeded at %s", fn)
	}
	if intr := e.lookupIntrinsic(fn); intr != nil {
		return intr(e, &CallCtx{St: st, Fn: fn, Args: args, Site: siteOf(in), Depth: depth, Instr: in})
	}
	if d := e.delegateFor(fn, in); d != nil {
		return e.CallFn(st, d, args, in, depth+1)
	}
	if fn.Blocks == nil {
		unsupported("no body/contract for %s (called at %s)", fn, siteOf(in))
	}
	if fn.Pkg != nil && !e.ownPkgs[fn.Pkg.Pkg.Path()] && !e.allowedForeign(fn) {
		unsupported("foreign function without contract: %s (called at %s)", fn, siteOf(in))
	}
	if _, seen := e.FuncsSeen[fn.String()]; !seen {
		n := 0
		for _, b := range fn.Blocks {
			n += len(b.Instrs)
		}
		e.FuncsSeen[fn.String()] = n
	}
	e.curFn = append(e.curFn, fn)
	defer func() { e.curFn = e.curFn[:len(e.curFn)-1] }()
	entryLen := len(st.pc)
	entryNext := st.next
	callerCur := st.cur
	st.ctx = append(st.ctx, strconv.Itoa(e.callSiteID(in))+":"+callerCur)
	st.cur = ""
	fr := &Frame{fn: fn, locals: make(map[ssa.Value]Value, 32), block: fn.Blocks[0], loops: map[int]int{}}
	for i, p := range fn.Params {
		if i < len(args) {
			fr.locals[p] = args[i]
		}
	}
	work := []*item{{st, fr}}
	var outs []Outcome
	pc := &pathCtx{e: e, work: &work, outs: &outs, depth: depth, entryLen: entryLen}
	for len(work) > 0 {
		it := e.nextItem(&work)
		pc.run(it)
		if len(outs) > e.cfg.MaxPaths {
			unsupported("too many paths in %s", fn)
		}
	}
	if len(outs) > 1 {
		for i := range outs {
			if outs[i].Panic == nil {
				if debugCheck {
					outs[i].St.checkSlices("before-collect in " + fn.String())
				}
				outs[i].St.collect(entryNext, outs[i].Ret)
				if debugCheck {
					outs[i].St.checkSlices("after-collect in " + fn.String())
				}
			}
		}
	}
	for i := range outs {
		if n := len(outs[i].St.ctx); n > 0 {
			outs[i].St.ctx = outs[i].St.ctx[:n-1:n-1]
		}
		outs[i].St.cur = callerCur
	}
	if e.fnStats != nil {
		fs := e.fnStats[fn.String()]
		fs[0]++
		fs[1] += len(outs)
		r := e.mergeAll(entryLen, outs)
		fs[2] += len(r)
		e.fnStats[fn.String()] = fs
		return r
	}
	return e.mergeAll(entryLen, outs)
}

func (e *Engine) allowedForeign(fn *ssa.Function) bool {
	p := fn.Pkg.Pkg.Path()
	if p == "github.com/veraison/eat" {
		return true
	}
	if p == "github.com/veraison/go-cose" {
		// plain-Go parts of go-cose are executed for real; its CBOR layer and crypto are
		// contracts (delegates above)
		switch fn.String() {
		case "github.com/veraison/go-cose.NewSign1Message",
			"(*github.com/veraison/go-cose.Sign1Message).Sign",
			"(*github.com/veraison/go-cose.Sign1Message).Verify",
			"(*github.com/veraison/go-cose.Headers).ensureSigningAlgorithm",
			"(*github.com/veraison/go-cose.Headers).ensureVerificationAlgorithm",
			"(github.com/veraison/go-cose.ProtectedHeader).SetAlgorithm",
			"(github.com/veraison/go-cose.ProtectedHeader).Algorithm",
			"(github.com/veraison/go-cose.Algorithm).String":
			return true
		}
	}
	return false
}

func (e *Engine) mergeAll(entryLen int, outs []Outcome) []Outcome {
	if len(outs) <= 1 {
		return outs
	}
	var res []Outcome
	for i := range outs {
		o := outs[i]
		merged := false
		if o.Panic == nil {
			for j := range res {
				if res[j].Panic != nil {
					continue
				}
				if m, ok := mergeOutcomes(entryLen, &res[j], &o); ok {
					res[j] = *m
					merged = true
					e.Merges++
					break
				}
			}
		}
		if !merged {
			if os.Getenv("GOSYM_MERGEDBG") != "" && o.Panic == nil && len(res) > 0 && len(e.curFn) > 0 && strings.Contains(e.curFn[len(e.curFn)-1].String(), os.Getenv("GOSYM_MERGEDBG")) {
				fmt.Fprintln(os.Stderr, "MERGEFAIL in", e.curFn[len(e.curFn)-1], ":", mergeFail)
			}
			res = append(res, o)
		}
	}
	return res
}

// bindFreeVars for closures
func (e *Engine) callValue(st *State, fv Value, args []Value, in ssa.Instruction, depth int) []Outcome {
	f, ok := fv.(VFunc)
	if !ok {
		unsupported("call of non-function value %T at %s", fv, siteOf(in))
	}
	if f.Fn == nil {
		unsupported("call of nil/unknown func at %s", siteOf(in))
	}
	if len(f.Bindings) > 0 {
		return e.callClosure(st, f, args, in, depth)
	}
	return e.CallFn(st, f.Fn, args, in, depth)
}

func (e *Engine) callClosure(st *State, f VFunc, args []Value, in ssa.Instruction, depth int) []Outcome {
	fn := f.Fn
	if fn.Blocks == nil {
		unsupported("closure without body %s", fn)
	}
	entryLen := len(st.pc)
	callerCur := st.cur
	st.ctx = append(st.ctx, strconv.Itoa(e.callSiteID(in))+":"+callerCur)
	st.cur = ""
	fr := &Frame{fn: fn, locals: make(map[ssa.Value]Value, 32), block: fn.Blocks[0], loops: map[int]int{}}
	for i, p := range fn.Params {
		fr.locals[p] = args[i]
	}
	for i, fvv := range fn.FreeVars {
		fr.locals[fvv] = f.Bindings[i]
	}
	if _, seen := e.FuncsSeen[fn.String()]; !seen {
		n := 0
		for _, b := range fn.Blocks {
			n += len(b.Instrs)
		}
		e.FuncsSeen[fn.String()] = n
	}
	work := []*item{{st, fr}}
	var outs []Outcome
	pc := &pathCtx{e: e, work: &work, outs: &outs, depth: depth, entryLen: entryLen}
	for len(work) > 0 {
		it := e.nextItem(&work)
		pc.run(it)
	}
	for i := range outs {
		if n := len(outs[i].St.ctx); n > 0 {
			outs[i].St.ctx = outs[i].St.ctx[:n-1:n-1]
		}
		outs[i].St.cur = callerCur
	}
	return e.mergeAll(entryLen, outs)
}

// ---------- scheduling and merging at join points ----------

var debugCheck = os.Getenv("GOSYM_CHECK") != ""

// rpo: reverse-post-order number of every block of fn (entry = 0)
func (e *Engine) rpo(fn *ssa.Function) []int {
	if r, ok := e.rpoCache[fn]; ok {
		return r
	}
	if e.rpoCache == nil {
		e.rpoCache = map[*ssa.Function][]int{}
	}
	n := len(fn.Blocks)
	seen := make([]bool, n)
	var post []int
	var dfs func(b *ssa.BasicBlock)
	dfs = func(b *ssa.BasicBlock) {
		seen[b.Index] = true
		for _, s := range b.Succs {
			if !seen[s.Index] {
				dfs(s)
			}
		}
		post = append(post, b.Index)
	}
	if n > 0 {
		dfs(fn.Blocks[0])
	}
	r := make([]int, n)
	for i := range r {
		r[i] = n // unreachable blocks last
	}
	for i, bi := range post {
		r[bi] = len(post) - 1 - i
	}
	e.rpoCache[fn] = r
	return r
}

// nextItem removes and returns the pending item that is earliest in reverse post-order (so
// that every path that can reach a join block arrives there before the join is executed),
// after merging into it every other pending item waiting at the start of the same block.
func (e *Engine) nextItem(work *[]*item) *item {
	w := *work
	if !e.joinMerge || len(w) == 1 {
		it := w[len(w)-1]
		*work = w[:len(w)-1]
		return it
	}
	r := e.rpo(w[0].fr.fn)
	best := len(w) - 1
	for i := len(w) - 2; i >= 0; i-- {
		if itemBefore(r, w[i], w[best]) {
			best = i
		}
	}
	it := w[best]
	w = append(w[:best], w[best+1:]...)
	if it.fr.entered && it.fr.idx <= numPhis(it.fr.block) {
		// merge the other items that sit at the start of the same block
		for i := 0; i < len(w); {
			o := w[i]
			if o.fr.block == it.fr.block && o.fr.entered && o.fr.idx == it.fr.idx {
				if m, ok := mergeItems(it, o, e.liveAtStart(it.fr.fn)[it.fr.block.Index]); ok {
					it = m
					e.JoinMerges++
					w = append(w[:i], w[i+1:]...)
					continue
				}
			}
			i++
		}
	}
	*work = w
	return it
}

// itemBefore: a is scheduled before b when it is in an EARLIER loop iteration (loop headers
// compared outermost first, i.e. in reverse post-order), or in the same iteration at a block
// earlier in reverse post-order. Without the iteration test a path that skips the rest of a
// loop body (continue) would reach the header first and run ahead of its siblings instead of
// waiting for them at the join.
func itemBefore(r []int, a, b *item) bool {
	la, lb := a.fr.loops, b.fr.loops
	if len(la) != 0 || len(lb) != 0 {
		bestH, diff := -1, 0
		for h, ca := range la {
			if cb := lb[h]; ca != cb && (bestH < 0 || r[h] < r[bestH]) {
				bestH, diff = h, ca-cb
			}
		}
		for h, cb := range lb {
			if _, ok := la[h]; !ok && cb != 0 && (bestH < 0 || r[h] < r[bestH]) {
				bestH, diff = h, -cb
			}
		}
		if bestH >= 0 {
			return diff < 0
		}
	}
	return r[a.fr.block.Index] < r[b.fr.block.Index]
}

// liveAtStart: per block, the SSA values that may still be read by an item sitting at the
// start of the block with its phis already evaluated (classic backward liveness; phi operands
// are uses on the incoming edge). Locals outside this set are dead at a join and need not
// agree between the paths being merged.
func (e *Engine) liveAtStart(fn *ssa.Function) []map[ssa.Value]bool {
	if e.liveCache == nil {
		e.liveCache = map[*ssa.Function][]map[ssa.Value]bool{}
	}
	if l, ok := e.liveCache[fn]; ok {
		return l
	}
	n := len(fn.Blocks)
	liveIn := make([]map[ssa.Value]bool, n) // before the phis
	atStart := make([]map[ssa.Value]bool, n)
	for i := range liveIn {
		liveIn[i] = map[ssa.Value]bool{}
		atStart[i] = map[ssa.Value]bool{}
	}
	isLocal := func(v ssa.Value) bool {
		switch v.(type) {
		case *ssa.Const, *ssa.Global, *ssa.Function, *ssa.Builtin:
			return false
		}
		return v != nil
	}
	var ops []*ssa.Value
	for changed := true; changed; {
		changed = false
		for bi := n - 1; bi >= 0; bi-- {
			b := fn.Blocks[bi]
			live := map[ssa.Value]bool{}
			for _, sblk := range b.Succs {
				for v := range liveIn[sblk.Index] {
					live[v] = true
				}
				// phi operands flowing along b -> sblk; the phis themselves are defined there
				for _, in := range sblk.Instrs {
					ph, ok := in.(*ssa.Phi)
					if !ok {
						break
					}
					delete(live, ph)
				}
				for _, in := range sblk.Instrs {
					ph, ok := in.(*ssa.Phi)
					if !ok {
						break
					}
					for pi, p := range sblk.Preds {
						if p == b && isLocal(ph.Edges[pi]) {
							live[ph.Edges[pi]] = true
						}
					}
				}
			}
			np := numPhis(b)
			for k := len(b.Instrs) - 1; k >= np; k-- {
				in := b.Instrs[k]
				if v, ok := in.(ssa.Value); ok {
					delete(live, v)
				}
				ops = in.Operands(ops[:0])
				for _, op := range ops {
					if *op != nil && isLocal(*op) {
						live[*op] = true
					}
				}
			}
			if len(live) != len(atStart[bi]) {
				changed = true
			} else {
				for v := range live {
					if !atStart[bi][v] {
						changed = true
						break
					}
				}
			}
			atStart[bi] = live
			// before the phis: the phis' results are not live, (their operands are accounted
			// for on the edges)
			in := map[ssa.Value]bool{}
			for v := range live {
				in[v] = true
			}
			for k := 0; k < np; k++ {
				delete(in, b.Instrs[k].(ssa.Value))
			}
			liveIn[bi] = in
		}
	}
	e.liveCache[fn] = atStart
	return atStart
}

func numPhis(b *ssa.BasicBlock) int {
	n := 0
	for _, in := range b.Instrs {
		if _, ok := in.(*ssa.Phi); !ok {
			break
		}
		n++
	}
	return n
}

// mergeItems merges two paths of the same activation that have arrived at the start of the
// same block (phis already evaluated). ok=false leaves both untouched.
func mergeItems(a, b *item, live map[ssa.Value]bool) (*item, bool) {
	if len(a.st.writes) != len(b.st.writes) || len(a.st.allocs) != len(b.st.allocs) || len(a.fr.defers) != 0 || len(b.fr.defers) != 0 {
		return joinFail(a, 1)
	}
	for i := range a.st.writes {
		if a.st.writes[i] != b.st.writes[i] {
			return joinFail(a, 2)
		}
	}
	// paths split on the value of a term (ndConcrete etc.) are never merged back (cheap test first)
	for k, ca := range a.st.eqs {
		if cb, ok := b.st.eqs[k]; ok && cb != ca {
			return joinFail(a, 10)
		}
	}
	// only paths with the same loop history are merged (merging different iterations of a
	// loop would turn concrete induction variables into symbolic ones)
	if len(a.fr.loops) != len(b.fr.loops) {
		return joinFail(a, 3)
	}
	for k, v := range a.fr.loops {
		if b.fr.loops[k] != v {
			return joinFail(a, 4)
		}
	}
	// cheap shape pre-check (no terms are built for pairs that cannot merge anyway)
	for k, va := range a.fr.locals {
		if !live[k] {
			continue
		}
		if vb, ok := b.fr.locals[k]; ok && !canMerge(va, vb) {
			if joinDbg != "" {
				mergeFail = fmt.Sprintf("local %s: %T vs %T", k.Name(), va, vb)
			}
			return joinFail(a, 5)
		}
	}
	for id, oa := range a.st.heap {
		if ob, ok := b.st.heap[id]; ok && oa != ob {
			if oa.Kind != ob.Kind || !types.Identical(oa.Typ, ob.Typ) || (oa.Kind == KCell && !canMerge(oa.Val, ob.Val)) || len(oa.Elems) != len(ob.Elems) || len(oa.Entries) != len(ob.Entries) || (keepGeometry && oa.Kind == KBytes && oa.Arr != ob.Arr) {
				return joinFail(a, 6)
			}
		}
	}
	// longest common prefix of the two path conditions
	lcp := 0
	for lcp < len(a.st.pc) && lcp < len(b.st.pc) && a.st.pc[lcp] == b.st.pc[lcp] {
		lcp++
	}
	ga := And(a.st.pc[lcp:]...)
	if ga.IsTrue() || And(b.st.pc[lcp:]...).IsTrue() {
		return joinFail(a, 7) // the suffix must tell the two paths apart
	}
	locals := make(map[ssa.Value]Value, len(a.fr.locals))
	for k, va := range a.fr.locals {
		vb, ok := b.fr.locals[k]
		if !ok || !live[k] {
			continue // defined on one path only, or never read again: dead after the join
		}
		m, ok := mergeVal(ga, va, vb)
		if !ok {
			return joinFail(a, 8)
		}
		locals[k] = m
	}
	oa := Outcome{St: a.st}
	ob := Outcome{St: b.st}
	mo, ok := mergeOutcomes(lcp, &oa, &ob)
	if !ok {
		return joinFail(a, 9)
	}
	if debugCheck {
		a.st.checkSlices("before-merge-a")
		b.st.checkSlices("before-merge-b")
		mo.St.checkSlices("after-merge")
	}
	fr := &Frame{fn: a.fr.fn, locals: locals, block: a.fr.block, prev: a.fr.prev, idx: a.fr.idx, loops: make(map[int]int, len(a.fr.loops)), entered: true}
	for k, v := range a.fr.loops {
		fr.loops[k] = v
	}
	for k, v := range b.fr.loops {
		if v > fr.loops[k] {
			fr.loops[k] = v
		}
	}
	return &item{st: mo.St, fr: fr}, true
}

var joinDbg = os.Getenv("GOSYM_JOINDBG")

// joinFail: (debug) report which test of mergeItems refused a join in the named function
func joinFail(a *item, why int) (*item, bool) {
	if joinDbg != "" && strings.Contains(a.fr.fn.String(), joinDbg) {
		fmt.Fprintf(os.Stderr, "JOINFAIL %s block %d reason %d %s\n", a.fr.fn, a.fr.block.Index, why, mergeFail)
	}
	return nil, false
}

// ---------- operand evaluation ----------

func (e *Engine) constVal(c *ssa.Const) Value {
	t := c.Type()
	if c.Value == nil {
		return Zero(t)
	}
	switch u := t.Underlying().(type) {
	case *types.Basic:
		switch {
		case u.Info()&types.IsBoolean != 0:
			return BoolC(constant.BoolVal(c.Value))
		case u.Info()&types.IsString != 0:
			return ConstString(constant.StringVal(c.Value))
		case u.Info()&types.IsInteger != 0:
			w, _, _ := basicWidth(u)
			if v, ok := constant.Int64Val(constant.ToInt(c.Value)); ok {
				return BVC(uint64(v), w)
			}
			v, _ := constant.Uint64Val(constant.ToInt(c.Value))
			return BVC(v, w)
		case u.Info()&types.IsFloat != 0:
			f, _ := constant.Float64Val(c.Value)
			return VOpaque{Kind: "float", Data: f}
		}
	case *types.Interface:
		// constant in interface-typed position cannot happen except nil
		return NilIface()
	}
	unsupported("constant %s of type %s", c, t)
	return nil
}

func (e *Engine) globalID(g *ssa.Global) ObjID {
	if id, ok := e.globalIDs[g]; ok {
		return id
	}
	id := ObjID(1<<30 + len(e.globalIDs))
	e.globalIDs[g] = id
	return id
}

func (e *Engine) globalPtr(st *State, g *ssa.Global) VPtr {
	id := e.globalID(g)
	if _, ok := st.heap[id]; !ok {
		elem := g.Type().(*types.Pointer).Elem()
		o := &Object{Kind: KCell, Typ: elem, Site: "global " + g.String(), Epoch: -1}
		own := g.Pkg != nil && e.ownPkgs[g.Pkg.Pkg.Path()]
		if !own {
			o.Val = e.foreignGlobalInit(st, g, elem)
		} else {
			o.Val = Zero(elem)
		}
		st.heap[id] = o
	}
	return VPtr{Nil: False, Obj: id}
}

func (e *Engine) foreignGlobalInit(st *State, g *ssa.Global, elem types.Type) Value {
	if types.Identical(elem, types.Universe.Lookup("error").Type()) {
		// a distinct sentinel error named after the variable
		eid := ObjID(1<<29 + int(e.globalID(g)-(1<<30)))
		st.heap[eid] = &Object{Kind: KCell, Typ: e.fakeNamed("errors.errorString"), Val: VErr{Msg: g.String()}, Site: "sentinel " + g.String(), Epoch: -1}
		return VIface{Nil: False, Dyn: types.NewPointer(e.fakeNamed("errors.errorString")), Val: VPtr{Nil: False, Obj: eid}}
	}
	if g.String() == "crypto/rand.Reader" {
		return VIface{Nil: False, Dyn: e.fakeNamed("crypto/rand.reader"), Val: VOpaque{Kind: "randreader"}}
	}
	return Zero(elem)
}

func (e *Engine) fakeNamed(name string) types.Type {
	if t, ok := e.fakeTypes[name]; ok {
		return t
	}
	pkgPath, tn := name, name
	if i := strings.LastIndex(name, "."); i >= 0 {
		pkgPath, tn = name[:i], name[i+1:]
	}
	pkg := types.NewPackage(pkgPath, pkgPath[strings.LastIndex(pkgPath, "/")+1:])
	obj := types.NewTypeName(token.NoPos, pkg, tn, nil)
	nt := types.NewNamed(obj, types.NewStruct(nil, nil), nil)
	e.fakeTypes[name] = nt
	return nt
}

func (pc *pathCtx) val(it *item, v ssa.Value) Value {
	switch x := v.(type) {
	case *ssa.Const:
		return pc.e.constVal(x)
	case *ssa.Global:
		return pc.e.globalPtr(it.st, x)
	case *ssa.Function:
		return VFunc{Nil: False, Fn: x}
	case *ssa.Builtin:
		return VFunc{Nil: False, Builtin: x.Name()}
	}
	r, ok := it.fr.locals[v]
	if !ok {
		unsupported("unbound SSA value %s (%T) in %s", v.Name(), v, it.fr.fn)
	}
	if len(it.st.eqs) > 0 {
		// terms known to equal a constant on this path are read as that constant, so that
		// lengths and offsets fixed by an earlier test stay out of the solver
		switch x := r.(type) {
		case *Term:
			if c, ok := it.st.eqs[x.ID]; ok {
				return c
			}
		case VSlice:
			if x.Bytes {
				x.Off, x.Len, x.Cap = it.st.concOr(x.Off), it.st.concOr(x.Len), it.st.concOr(x.Cap)
				return x
			}
		case VString:
			x.Len = it.st.concOr(x.Len)
			return x
		}
	}
	return r
}

func (pc *pathCtx) term(it *item, v ssa.Value) *Term {
	x := pc.val(it, v)
	t, ok := x.(*Term)
	if !ok {
		unsupported("expected scalar for %s in %s, got %T", v.Name(), it.fr.fn, x)
	}
	return t
}

// ---------- main path loop ----------

// enterBlock performs the block-entry work for the item's current block (loop accounting,
// ndAtFirstLoop cut, simultaneous phi evaluation against the predecessor edge). It returns
// false when the path ends here.
func (pc *pathCtx) enterBlock(it *item) bool {
	e := pc.e
	blk := it.fr.block
	// loop bound per frame: count visits of blocks that are targets of back edges; entering a
	// loop header from outside the loop (re)starts its count (nested loops)
	if it.fr.prev != nil && it.fr.loops[blk.Index] > 0 && !blk.Dominates(it.fr.prev) {
		it.fr.loops[blk.Index] = 0
	}
	if !isLoopHeader(blk) {
		goto counted // only loop headers are counted: the loop history is what joins compare
	}
	it.fr.loops[blk.Index]++
	if isLoopHeader(blk) {
		// loop-iteration signature of this activation (part of allocation identities)
		var hs []int
		for bi := range it.fr.loops {
			if isLoopHeader(it.fr.fn.Blocks[bi]) {
				hs = append(hs, bi)
			}
		}
		sort.Ints(hs)
		var sb strings.Builder
		for _, bi := range hs {
			sb.WriteString(strconv.Itoa(bi))
			sb.WriteByte('.')
			sb.WriteString(strconv.Itoa(it.fr.loops[bi]))
			sb.WriteByte(',')
		}
		it.st.cur = sb.String()
	}
counted:
	if it.fr.loops[blk.Index] > e.cfg.Unroll+1 {
		if e.lazyBranch && e.solver.Check(append(append([]*Term(nil), it.st.pc...), e.exclude...)) == Unsat {
			e.PathsEnded++
			return false
		}
		if e.loopObl != "" {
			// the harness bounds its input so that no loop of the code under test needs this many
			// iterations: a feasible path that gets here iterates independently of the input size
			e.checkObligation(it.st, "assert", e.loopObl, fmt.Sprintf("%s block %d", it.fr.fn, blk.Index), True)
			e.PathsEnded++
			return false
		}
		e.Unwinding = append(e.Unwinding, fmt.Sprintf("%s block %d (bound %d)", it.fr.fn, blk.Index, e.cfg.Unroll))
		e.PathsEnded++
		return false
	}
	if e.cutFn != "" && it.fr.prev != nil && it.fr.fn.Name() == e.cutFn && it.fr.loops[blk.Index] == 1 && isLoopHeader(blk) {
		// cut: report the []byte value flowing into the loop header from the entry edge
		var got Value
		n := 0
		for _, in := range blk.Instrs {
			ph, ok := in.(*ssa.Phi)
			if !ok {
				break
			}
			if isByteSlice(ph.Type()) {
				for i, p := range blk.Preds {
					if p == it.fr.prev {
						got = pc.val(it, ph.Edges[i])
						n++
					}
				}
			}
		}
		if n != 1 {
			unsupported("ndAtFirstLoop: %d []byte values flow into the first loop of %s", n, it.fr.fn)
		}
		*pc.outs = append(*pc.outs, Outcome{St: it.st, Ret: got, Cut: true})
		e.PathsEnded++
		return false
	}
	// phis are evaluated simultaneously against the predecessor edge
	np := 0
	var vals []Value
	for _, in := range blk.Instrs {
		ph, ok := in.(*ssa.Phi)
		if !ok {
			break
		}
		found := false
		for i, p := range blk.Preds {
			if p == it.fr.prev {
				vals = append(vals, pc.val(it, ph.Edges[i]))
				found = true
				break
			}
		}
		if !found {
			unsupported("phi without matching predecessor in %s", it.fr.fn)
		}
		np++
	}
	for i := 0; i < np; i++ {
		it.fr.locals[blk.Instrs[i].(*ssa.Phi)] = vals[i]
	}
	it.fr.idx = np
	it.fr.entered = true
	e.Instrs += np
	return true
}

// run executes the item until its path ends or until it arrives at the start of another
// block while other items of the same activation are pending (then it is put back on the
// work list so that paths meeting at a join point can be merged there).
func (pc *pathCtx) run(it *item) {
	e := pc.e
	for {
		if !it.fr.entered {
			if !pc.enterBlock(it) {
				return
			}
			if len(*pc.work) > 0 && e.joinMerge {
				*pc.work = append(*pc.work, it)
				return
			}
		}
		blk := it.fr.block
		it.fr.jumped = false
		for it.fr.idx < len(blk.Instrs) {
			in := blk.Instrs[it.fr.idx]
			it.fr.idx++
			e.Instrs++
			it.st.steps++
			if !pc.step(it, in) {
				return
			}
			if it.fr.jumped {
				it.fr.jumped = false
				break
			}
		}
	}
}

func (pc *pathCtx) jump(it *item, to *ssa.BasicBlock) {
	it.fr.prev = it.fr.block
	it.fr.block = to
	it.fr.idx = 0
	it.fr.jumped = true
	it.fr.entered = false
}

// step executes one instruction; false = this path is finished (or was handed to the worklist).
func (pc *pathCtx) step(it *item, in ssa.Instruction) bool {
	e := pc.e
	st := it.st
	fr := it.fr
	switch x := in.(type) {
	case *ssa.DebugRef:
		return true
	case *ssa.Alloc:
		elem := x.Type().(*types.Pointer).Elem()
		if at, ok := elem.Underlying().(*types.Array); ok && isByte(at.Elem()) {
			id := st.Alloc(&Object{Kind: KBytes, Typ: elem, Arr: ConstArr(0), Site: siteOf(in)})
			fr.locals[x] = VPtr{Nil: False, Obj: id}
			return true
		}
		id := st.Alloc(&Object{Kind: KCell, Typ: elem, Val: Zero(elem), Site: siteOf(in)})
		fr.locals[x] = VPtr{Nil: False, Obj: id}
		return true
	case *ssa.Phi:
		// all phis of a block are evaluated against the predecessor simultaneously
		for i, p := range fr.block.Preds {
			if p == fr.prev {
				fr.locals[x] = pc.val(it, x.Edges[i])
				return true
			}
		}
		unsupported("phi without matching predecessor in %s", fr.fn)
	case *ssa.BinOp:
		fr.locals[x] = pc.binop(it, x)
		return fr.locals[x] != nil
	case *ssa.UnOp:
		return pc.unop(it, x)
	case *ssa.ChangeType:
		fr.locals[x] = pc.val(it, x.X)
		return true
	case *ssa.ChangeInterface:
		fr.locals[x] = pc.val(it, x.X)
		return true
	case *ssa.MakeInterface:
		fr.locals[x] = VIface{Nil: False, Dyn: x.X.Type(), Val: pc.val(it, x.X)}
		return true
	case *ssa.Convert:
		fr.locals[x] = pc.convert(it, x)
		return true
	case *ssa.Extract:
		t := pc.val(it, x.Tuple).(VTuple)
		fr.locals[x] = t.Elems[x.Index]
		return true
	case *ssa.Field:
		s := pc.val(it, x.X).(VStruct)
		fr.locals[x] = s.Fields[x.Field]
		return true
	case *ssa.FieldAddr:
		p := pc.val(it, x.X).(VPtr)
		if !pc.panicIf(it, p.Nil, "nil-deref", in) {
			return false
		}
		fr.locals[x] = VPtr{Nil: False, Obj: p.Obj, Path: append(append([]int(nil), p.Path...), x.Field)}
		return true
	case *ssa.Index:
		return pc.index(it, x)
	case *ssa.IndexAddr:
		return pc.indexAddr(it, x)
	case *ssa.Lookup:
		return pc.lookup(it, x)
	case *ssa.MakeMap:
		id := st.Alloc(&Object{Kind: KMap, Typ: x.Type(), Site: siteOf(in)})
		fr.locals[x] = VMap{Nil: False, Obj: id}
		if x.Reserve != nil {
			pc.noteAlloc(it, pc.term(it, x.Reserve), x.Type(), in)
		}
		return true
	case *ssa.MakeSlice:
		return pc.makeSlice(it, x)
	case *ssa.MakeClosure:
		f := x.Fn.(*ssa.Function)
		bs := make([]Value, len(x.Bindings))
		for i, b := range x.Bindings {
			bs[i] = pc.val(it, b)
		}
		fr.locals[x] = VFunc{Nil: False, Fn: f, Bindings: bs}
		return true
	case *ssa.MapUpdate:
		return pc.mapUpdate(it, x)
	case *ssa.Range:
		return pc.rangeInit(it, x)
	case *ssa.Next:
		return pc.next(it, x)
	case *ssa.Slice:
		return pc.slice(it, x)
	case *ssa.Store:
		p := pc.val(it, x.Addr).(VPtr)
		if !pc.panicIf(it, p.Nil, "nil-deref", in) {
			return false
		}
		e.store(st, p, pc.val(it, x.Val), siteOf(in))
		return true
	case *ssa.TypeAssert:
		return pc.typeAssert(it, x)
	case *ssa.Call:
		return pc.call(it, x)
	case *ssa.Defer:
		d := deferred{call: &x.Call}
		if !x.Call.IsInvoke() {
			d.fn = pc.val(it, x.Call.Value)
		} else {
			d.fn = pc.val(it, x.Call.Value)
		}
		for _, a := range x.Call.Args {
			d.args = append(d.args, pc.val(it, a))
		}
		fr.defers = append(fr.defers, d)
		return true
	case *ssa.RunDefers:
		if len(fr.defers) > 0 {
			unsupported("defer execution in %s", fr.fn)
		}
		return true
	case *ssa.Jump:
		pc.jump(it, fr.block.Succs[0])
		return true
	case *ssa.If:
		c := pc.term(it, x.Cond)
		var t, f bool
		if e.lazyBranch && fr.loops[fr.block.Index] <= 1 {
			// lazy forking: outside loop re-entries a branch that the path's literal knowledge
			// does not decide is simply taken both ways; feasibility is established where it
			// matters (obligations, panics, loop re-entry, unwinding records, covers)
			cs := st.Simp(c)
			switch {
			case cs.IsTrue():
				t = true
			case cs.IsFalse():
				f = true
			default:
				t, f = true, true
			}
		} else {
			t, f = e.branch(st, c)
		}
		switch {
		case t && f:
			o := &item{st: st.Fork(), fr: fr.fork()}
			o.st.Assume(Not(c))
			pc.jump(o, fr.block.Succs[1])
			*pc.work = append(*pc.work, o)
			e.States++
			st.Assume(c)
			pc.jump(it, fr.block.Succs[0])
		case t:
			st.Assume(c)
			pc.jump(it, fr.block.Succs[0])
		case f:
			st.Assume(Not(c))
			pc.jump(it, fr.block.Succs[1])
		default:
			e.Infeasible++
			return false
		}
		return true
	case *ssa.Return:
		if len(fr.defers) > 0 {
			unsupported("return with pending defers in %s", fr.fn)
		}
		var ret Value
		switch len(x.Results) {
		case 0:
		case 1:
			ret = pc.val(it, x.Results[0])
		default:
			es := make([]Value, len(x.Results))
			for i, r := range x.Results {
				es[i] = pc.val(it, r)
			}
			ret = VTuple{Elems: es}
		}
		*pc.outs = append(*pc.outs, Outcome{St: st, Ret: ret})
		e.PathsEnded++
		return false
	case *ssa.Panic:
		*pc.outs = append(*pc.outs, Outcome{St: st, Panic: &PanicInfo{Kind: "explicit-panic", Site: siteOf(in)}})
		e.PathsEnded++
		return false
	}
	unsupported("instruction %T (%s) in %s", in, in, fr.fn)
	return false
}

// ---------- calls ----------

func (pc *pathCtx) call(it *item, x *ssa.Call) bool {
	e := pc.e
	st := it.st
	cc := x.Common()
	var outs []Outcome
	args := make([]Value, 0, len(cc.Args)+1)
	if cc.IsInvoke() {
		recv := pc.val(it, cc.Value)
		switch rv := recv.(type) {
		case VIface:
			if !pc.panicIf(it, rv.Nil, "nil-invoke", x) {
				return false
			}
			for _, a := range cc.Args {
				args = append(args, pc.val(it, a))
			}
			outs = e.invoke(st, rv, cc.Method, args, x, pc.depth+1)
		default:
			unsupported("invoke on %T at %s", recv, siteOf(x))
		}
	} else {
		for _, a := range cc.Args {
			args = append(args, pc.val(it, a))
		}
		switch fv := cc.Value.(type) {
		case *ssa.Builtin:
			return pc.builtin(it, x, fv.Name(), args)
		case *ssa.Function:
			outs = e.CallFn(st, fv, args, x, pc.depth+1)
		default:
			f := pc.val(it, cc.Value)
			if vf, ok := f.(VFunc); ok && vf.Nil != nil && !vf.Nil.IsFalse() {
				if !pc.panicIf(it, vf.Nil, "nil-func-call", x) {
					return false
				}
			}
			outs = e.callValue(st, f, args, x, pc.depth+1)
		}
	}
	return pc.resume(it, x, outs)
}

// resume continues the caller for each callee outcome.
func (pc *pathCtx) resume(it *item, x ssa.Value, outs []Outcome) bool {
	if len(outs) == 0 {
		pc.e.Infeasible++
		return false
	}
	var first *Outcome
	for i := range outs {
		o := &outs[i]
		if o.Panic != nil || o.Cut {
			*pc.outs = append(*pc.outs, *o)
			continue
		}
		if first == nil {
			first = o
			continue
		}
		ni := &item{st: o.St, fr: it.fr.fork()}
		ni.fr.locals[x] = o.Ret
		*pc.work = append(*pc.work, ni)
		pc.e.States++
	}
	if first == nil {
		return false
	}
	it.st = first.St
	it.fr.locals[x] = first.Ret
	return true
}

func (e *Engine) invoke(st *State, rv VIface, m *types.Func, args []Value, in ssa.Instruction, depth int) []Outcome {
	// opaque / modelled dynamic types first
	key := fmt.Sprintf("invoke:%s.%s", typeKey(rv.Dyn), m.Name())
	if intr, ok := e.intr[key]; ok {
		return intr(e, &CallCtx{St: st, Args: append([]Value{rv.Val}, args...), Site: siteOf(in), Depth: depth, Instr: in})
	}
	ms := e.prog.MethodSets.MethodSet(rv.Dyn)
	sel := ms.Lookup(m.Pkg(), m.Name())
	if sel == nil {
		unsupported("method %s not found on %s at %s", m.Name(), rv.Dyn, siteOf(in))
	}
	fn := e.prog.MethodValue(sel)
	if fn == nil {
		unsupported("no method value for %s.%s", rv.Dyn, m.Name())
	}
	return e.CallFn(st, fn, append([]Value{rv.Val}, args...), in, depth)
}

func typeKey(t types.Type) string {
	if t == nil {
		return "<nil>"
	}
	return types.TypeString(t, nil)
}

// callSiteID: a small integer per call instruction
func (e *Engine) callSiteID(in ssa.Instruction) int {
	if in == nil {
		return 0
	}
	if e.siteIDs == nil {
		e.siteIDs = map[ssa.Instruction]int{}
	}
	id, ok := e.siteIDs[in]
	if !ok {
		id = len(e.siteIDs) + 1
		e.siteIDs[in] = id
	}
	return id
}

// delegates: library functions whose contract is written in Go in the harness package
// (DESIGN.md section 3); the engine simply runs the harness function instead.
var delegates = map[string]string{
	"encoding/json.Marshal":   "verifJSONMarshal",
	"encoding/json.Unmarshal": "verifJSONUnmarshal",
	"(*github.com/veraison/go-cose.Sign1Message).toBeSigned":    "verifCoseTBS",
	"(*github.com/veraison/go-cose.Sign1Message).MarshalCBOR":   "verifCoseMarshal",
	"(*github.com/veraison/go-cose.Sign1Message).UnmarshalCBOR": "verifCoseUnmarshal",
	"github.com/veraison/go-cose.NewVerifier":                   "verifCoseNewVerifier",
}

func (e *Engine) delegateFor(fn *ssa.Function, caller ssa.Instruction) *ssa.Function {
	h, ok := delegates[fn.String()]
	if !ok {
		return nil
	}
	var order []string
	if caller != nil && caller.Parent() != nil && caller.Parent().Pkg != nil {
		order = append(order, caller.Parent().Pkg.Pkg.Path())
	}
	order = append(order, modPath, modPath+"/encoding")
	for _, p := range order {
		if pkg := e.pkgs[p]; pkg != nil && e.ownPkgs[p] {
			if f := pkg.Func(h); f != nil {
				return f
			}
		}
	}
	return nil
}

func (e *Engine) lookupIntrinsic(fn *ssa.Function) Intrinsic {
	name := fn.String()
	if fn.Name() == "init" && fn.Pkg != nil && !e.ownPkgs[fn.Pkg.Pkg.Path()] && fn.Signature.Recv() == nil {
		return func(e *Engine, c *CallCtx) []Outcome { return one(c.St, nil) }
	}
	if i, ok := e.intr[name]; ok {
		return i
	}
	// generic instantiations: strip type arguments
	if j := strings.Index(name, "["); j >= 0 {
		if i, ok := e.intr[name[:j]]; ok {
			return i
		}
	}
	if fn.Origin() != nil {
		if i, ok := e.intr[fn.Origin().String()]; ok {
			return i
		}
	}
	return nil
}

func one(st *State, ret Value) []Outcome { return []Outcome{{St: st, Ret: ret}} }
