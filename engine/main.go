package main

import (
	"encoding/json"
	"flag"
	"fmt"
	"os"
	"path/filepath"
	"runtime/pprof"
	"strconv"
	"time"
)

var dbgEngine *Engine

func verifDir() string {
	if d := os.Getenv("VERIF_DIR"); d != "" {
		return d
	}
	return "/verif"
}

func main() {
	if len(os.Args) < 2 {
		fmt.Fprintln(os.Stderr, "usage: gosym harness|check|replay ...")
		os.Exit(2)
	}
	switch os.Args[1] {
	case "harness":
		fs := flag.NewFlagSet("harness", flag.ExitOnError)
		specJSON := fs.String("spec", "", "harness spec JSON")
		out := fs.String("out", "", "result file")
		seed := fs.Int("seed", 0, "seed")
		thorough := fs.Bool("thorough", false, "thorough tier")
		fs.Parse(os.Args[2:])
		var spec HarnessSpec
		if err := json.Unmarshal([]byte(*specJSON), &spec); err != nil {
			fmt.Fprintln(os.Stderr, "bad spec:", err)
			os.Exit(2)
		}
		if pp := os.Getenv("GOSYM_PPROF"); pp != "" {
			f, _ := os.Create(pp)
			pprof.StartCPUProfile(f)
			go func() {
				d, _ := strconv.Atoi(os.Getenv("GOSYM_PPROF_S"))
				if d == 0 {
					d = 60
				}
				time.Sleep(time.Duration(d) * time.Second)
				pprof.StopCPUProfile()
				f.Close()
				fmt.Fprintln(os.Stderr, "profile written")
				if dbgEngine != nil {
					fmt.Fprintf(os.Stderr, "instrs=%d states=%d queries=%d solver=%.1fs paths=%d merges=%d\n", dbgEngine.Instrs, dbgEngine.States, dbgEngine.solver.Queries, dbgEngine.solver.Wall.Seconds(), dbgEngine.PathsEnded, dbgEngine.Merges)
					for _, f := range dbgEngine.curFn {
						fmt.Fprintln(os.Stderr, "  in", f)
					}
					dbgEngine.printFnStats()
				}
				os.Exit(3)
			}()
		}
		res, err := runHarness(verifDir(), spec, *seed, *thorough)
		if err != nil {
			fmt.Fprintln(os.Stderr, "error:", err)
			os.Exit(2)
		}
		b, _ := json.MarshalIndent(res, "", " ")
		if *out != "" {
			os.MkdirAll(filepath.Dir(*out), 0o755)
			os.WriteFile(*out, b, 0o644)
		} else {
			os.Stdout.Write(b)
		}
	case "check":
		if len(os.Args) < 4 {
			fmt.Fprintln(os.Stderr, "usage: gosym check <ID> quick|thorough")
			os.Exit(2)
		}
		seed := 0
		if s := os.Getenv("VERIF_SEED"); s != "" {
			seed, _ = strconv.Atoi(s)
		}
		os.Exit(runCheck(verifDir(), os.Args[2], os.Args[3], seed))
	case "replay":
		if len(os.Args) < 3 {
			os.Exit(2)
		}
		os.Exit(runReplayFile(verifDir(), os.Args[2]))
	default:
		fmt.Fprintln(os.Stderr, "unknown command")
		os.Exit(2)
	}
}
