package main

import (
	"encoding/json"
	"flag"
	"fmt"
	"os"
	"path/filepath"
	"strconv"
)

func verifDir() string {
	if d := os.Getenv("VERIF_DIR"); d != "" {
		return d
	}
	return "/verif"
}

func main() {
	if len(os.Args) < 2 {
		fmt.Fprintln(os.Stderr, "usage: gosym harness|check|replay ...")
		os.Exit(2)
	}
	switch os.Args[1] {
	case "harness":
		fs := flag.NewFlagSet("harness", flag.ExitOnError)
		specJSON := fs.String("spec", "", "harness spec JSON")
		out := fs.String("out", "", "result file")
		seed := fs.Int("seed", 0, "seed")
		thorough := fs.Bool("thorough", false, "thorough tier")
		fs.Parse(os.Args[2:])
		var spec HarnessSpec
		if err := json.Unmarshal([]byte(*specJSON), &spec); err != nil {
			fmt.Fprintln(os.Stderr, "bad spec:", err)
			os.Exit(2)
		}
		res, err := runHarness(verifDir(), spec, *seed, *thorough)
		if err != nil {
			fmt.Fprintln(os.Stderr, "error:", err)
			os.Exit(2)
		}
		b, _ := json.MarshalIndent(res, "", " ")
		if *out != "" {
			os.MkdirAll(filepath.Dir(*out), 0o755)
			os.WriteFile(*out, b, 0o644)
		} else {
			os.Stdout.Write(b)
		}
	case "check":
		if len(os.Args) < 4 {
			fmt.Fprintln(os.Stderr, "usage: gosym check <ID> quick|thorough")
			os.Exit(2)
		}
		seed := 0
		if s := os.Getenv("VERIF_SEED"); s != "" {
			seed, _ = strconv.Atoi(s)
		}
		os.Exit(runCheck(verifDir(), os.Args[2], os.Args[3], seed))
	case "replay":
		if len(os.Args) < 3 {
			os.Exit(2)
		}
		os.Exit(runReplayFile(verifDir(), os.Args[2]))
	default:
		fmt.Fprintln(os.Stderr, "unknown command")
		os.Exit(2)
	}
}
