package main

// Contract model of github.com/veraison/eat.Profile (DESIGN.md §3 L1). eat.Nonce / eat.UEID
// are plain slices and their real code is executed.

import (
	"go/types"
	"net/url"
	"strconv"
	"strings"
)

type urlData struct{ S VString }

func (u urlData) MergeWith(g *Term, other interface{}) (interface{}, bool) {
	o, ok := other.(urlData)
	if !ok {
		return nil, false
	}
	m, ok := mergeVal(g, u.S, o.S)
	if !ok {
		return nil, false
	}
	return urlData{S: m.(VString)}, true
}

func (e *Engine) urlPtrType() types.Type {
	if t := lookupNamed(e.pkgs, "net/url", "URL"); t != nil {
		return types.NewPointer(t)
	}
	return types.NewPointer(e.fakeNamed("net/url.URL"))
}

func (e *Engine) profileWithURL(s VString) VStruct {
	return VStruct{Fields: []Value{VIface{Nil: False, Dyn: e.urlPtrType(), Val: VOpaque{Kind: "url", Data: urlData{S: s}}}}}
}

func registerEat(e *Engine) {
	e.intr["(*github.com/veraison/eat.Profile).Set"] = func(e *Engine, c *CallCtx) []Outcome {
		p := c.Args[0].(VPtr)
		sv := c.Args[1].(VString)
		s, ok := sv.Concrete()
		if !ok {
			// symbolic text: accepted iff it is in the URI grammar of ndEatProfile (strings that
			// net/url accepts outside that grammar are outside the model)
			g := urlGrammar(sv)
			var outs []Outcome
			t, f := e.branch(c.St, g)
			if f {
				s2 := c.St
				if t {
					s2 = c.St.Fork()
				}
				s2.Assume(Not(g))
				outs = append(outs, Outcome{St: s2, Ret: e.newError(s2, "eat.profileError", VErr{Msg: "profile string must be an absolute URL or an ASN.1 OID"}, c.Site)})
			}
			if t {
				c.St.Assume(g)
				e.store(c.St, p, e.profileWithURL(sv), c.Site)
				outs = append(outs, Outcome{St: c.St, Ret: NilIface()})
			}
			return outs
		}
		u, err := url.Parse(s)
		if err == nil && u.IsAbs() {
			e.store(c.St, p, e.profileWithURL(ConstString(u.String())), c.Site)
			return one(c.St, NilIface())
		}
		// OID form
		parts := strings.Split(s, ".")
		okOID := s != "" && len(parts) >= 3
		for _, a := range parts {
			n, err := strconv.Atoi(a)
			if err != nil || n < 0 {
				okOID = false
			}
		}
		if okOID {
			oidT := lookupNamed(e.pkgs, "encoding/asn1", "ObjectIdentifier")
			if oidT == nil {
				oidT = e.fakeNamed("encoding/asn1.ObjectIdentifier")
			}
			e.store(c.St, p, VStruct{Fields: []Value{VIface{Nil: False, Dyn: oidT, Val: VOpaque{Kind: "oid", Data: s}}}}, c.Site)
			return one(c.St, NilIface())
		}
		return one(c.St, e.newError(c.St, "eat.profileError", VErr{Msg: "profile string must be an absolute URL or an ASN.1 OID"}, c.Site))
	}
	e.intr["(github.com/veraison/eat.Profile).Get"] = func(e *Engine, c *CallCtx) []Outcome {
		pv := c.Args[0].(VStruct)
		iv := pv.Fields[0].(VIface)
		var outs []Outcome
		mkErr := func(st *State) Outcome {
			return Outcome{St: st, Ret: VTuple{Elems: []Value{ConstString(""), e.newError(st, "eat.profileError", VErr{Msg: "no valid EAT profile"}, c.Site)}}}
		}
		if iv.Nil.IsTrue() {
			return []Outcome{mkErr(c.St)}
		}
		okVal := func(st *State) Outcome {
			o := iv.Val.(VOpaque)
			switch d := o.Data.(type) {
			case urlData:
				return Outcome{St: st, Ret: VTuple{Elems: []Value{d.S, NilIface()}}}
			case string:
				return Outcome{St: st, Ret: VTuple{Elems: []Value{ConstString(d), NilIface()}}}
			}
			unsupported("eat.Profile.Get on unknown payload")
			return Outcome{}
		}
		if iv.Nil.IsFalse() {
			return []Outcome{okVal(c.St)}
		}
		if e.feasible(c.St, iv.Nil) != Unsat {
			s2 := c.St.Fork()
			s2.Assume(iv.Nil)
			outs = append(outs, mkErr(s2))
		}
		if e.feasible(c.St, Not(iv.Nil)) != Unsat {
			c.St.Assume(Not(iv.Nil))
			outs = append(outs, okVal(c.St))
		}
		return outs
	}
	// ndEatProfile(name, max): profile holding an arbitrary absolute-URL string drawn from the
	// grammar  scheme ":" safe*  (scheme = alpha (alnum|+|-|.)*, safe = alnum / . _ ~ -), for
	// which url.Parse(s).String() == s.
	e.intr[modPath+".ndEatProfile"] = func(e *Engine, c *CallCtx) []Outcome {
		name := e.ndName(c, c.Args[0])
		outs := intrNdString(e, &CallCtx{St: c.St, Args: []Value{ConstString(name), c.Args[1]}, Site: c.Site})
		s := outs[0].Ret.(VString)
		c.St.Assume(urlGrammar(s))
		present := e.ndScalar(&CallCtx{St: c.St, Args: []Value{ConstString(name + ".present")}, Site: c.Site}, "bool", 0, false).(*Term)
		zero := e.ndScalar(&CallCtx{St: c.St, Args: []Value{ConstString(name + ".zero")}, Site: c.Site}, "bool", 0, false).(*Term)
		pv := e.profileWithURL(s)
		iv := pv.Fields[0].(VIface)
		iv.Nil = zero
		pv = VStruct{Fields: []Value{iv}}
		id := c.St.Alloc(&Object{Kind: KCell, Typ: lookupNamed(e.pkgs, "github.com/veraison/eat", "Profile"), Val: pv, Site: "nd:" + name})
		kind := Ite(Not(present), I64(0), Ite(zero, I64(1), I64(2)))
		// the returned string is "" unless kind == 2
		es := VString{Len: Ite(Eq(kind, I64(2)), s.Len, I64(0)), B: s.B}
		return one(c.St, VTuple{Elems: []Value{VPtr{Nil: Not(present), Obj: id}, kind, es}})
	}
	nonceT := lookupNamed(e.pkgs, "github.com/veraison/eat", "Nonce")
	e.intr[modPath+".ndNonceEmpty"] = func(e *Engine, c *CallCtx) []Outcome {
		elem := nonceT.Underlying().(*types.Slice).Elem()
		sl := e.newSlice(c.St, elem, nil, 0, "nd:nonce")
		id := c.St.Alloc(&Object{Kind: KCell, Typ: nonceT, Val: sl, Site: "nd:nonce"})
		return one(c.St, VPtr{Nil: False, Obj: id})
	}
	e.intr[modPath+".ndNonceAppend"] = func(e *Engine, c *CallCtx) []Outcome {
		elem := nonceT.Underlying().(*types.Slice).Elem()
		old := e.load(c.St, c.Args[0].(VPtr)).(VSlice)
		es := append([]Value(nil), e.sliceElems(c.St, old)...)
		es = append(es, VStruct{Fields: []Value{c.Args[1]}})
		sl := e.newSlice(c.St, elem, es, len(es), "nd:nonce")
		id := c.St.Alloc(&Object{Kind: KCell, Typ: nonceT, Val: sl, Site: "nd:nonce"})
		return one(c.St, VPtr{Nil: False, Obj: id})
	}
}

func isAlpha(b *Term) *Term {
	return Or(And(CmpBV(OULe, BVC('a', 8), b), CmpBV(OULe, b, BVC('z', 8))), And(CmpBV(OULe, BVC('A', 8), b), CmpBV(OULe, b, BVC('Z', 8))))
}
func isLower(b *Term) *Term { return And(CmpBV(OULe, BVC('a', 8), b), CmpBV(OULe, b, BVC('z', 8))) }
func isDigit(b *Term) *Term { return And(CmpBV(OULe, BVC('0', 8), b), CmpBV(OULe, b, BVC('9', 8))) }
func isOneOf(b *Term, cs string) *Term {
	r := False
	for i := 0; i < len(cs); i++ {
		r = Or(r, Eq(b, BVC(uint64(cs[i]), 8)))
	}
	return r
}

// urlGrammar: s = scheme ":" safe+ with the colon at a symbolic position.
func urlGrammar(s VString) *Term {
	n := len(s.B)
	if n < 3 {
		return False
	}
	res := False
	for colon := 1; colon < n-1; colon++ {
		// (lower-case scheme only: net/url lower-cases the scheme, so other spellings are not in normal form)
		conds := []*Term{CmpBV(OSLt, I64(int64(colon+1)), s.Len), Eq(s.B[colon], BVC(':', 8)), isLower(s.B[0])}
		for i := 1; i < colon; i++ {
			conds = append(conds, Or(isLower(s.B[i]), isDigit(s.B[i]), isOneOf(s.B[i], "+-.")))
		}
		for i := colon + 1; i < n; i++ {
			ok := Or(isAlpha(s.B[i]), isDigit(s.B[i]), isOneOf(s.B[i], "._~-/"))
			if i == colon+1 {
				// first character after the colon must not start an authority-less odd form
				ok = Or(isAlpha(s.B[i]), isDigit(s.B[i]), isOneOf(s.B[i], "/"))
			}
			conds = append(conds, Or(CmpBV(OSLe, s.Len, I64(int64(i))), ok))
		}
		res = Or(res, And(conds...))
	}
	return res
}
