package main

// Codec contracts (L0/L3/L4). See DESIGN.md §3.

import (
	"go/types"
)

func registerCodecs(e *Engine) {
	e.intr["(github.com/fxamacker/cbor/v2.EncOptions).EncMode"] = func(e *Engine, c *CallCtx) []Outcome {
		v := VIface{Nil: False, Dyn: types.NewPointer(e.fakeNamed("github.com/fxamacker/cbor/v2.encMode")), Val: VOpaque{Kind: "encmode"}}
		return one(c.St, VTuple{Elems: []Value{v, NilIface()}})
	}
	e.intr["(github.com/fxamacker/cbor/v2.DecOptions).DecMode"] = func(e *Engine, c *CallCtx) []Outcome {
		v := VIface{Nil: False, Dyn: types.NewPointer(e.fakeNamed("github.com/fxamacker/cbor/v2.decMode")), Val: VOpaque{Kind: "decmode"}}
		return one(c.St, VTuple{Elems: []Value{v, NilIface()}})
	}
}
