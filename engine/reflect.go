package main

// L2: reflect on concrete types. Types are always concrete; only IsZero / Interface / Elem
// touch symbolic data.

import (
	"go/types"
	"reflect"

	"golang.org/x/tools/go/ssa"
)

type RVal struct {
	Typ  types.Type
	Val  Value // for non-addressable values
	Addr *VPtr // location when addressable (value is loaded on demand)
}

func (e *Engine) rtypeIface(t types.Type) VIface {
	if t == nil {
		return NilIface()
	}
	return VIface{Nil: False, Dyn: types.NewPointer(e.fakeNamed("reflect.rtype")), Val: VOpaque{Kind: "rtype", Data: t}}
}

func rtypeOf(v Value) types.Type {
	switch x := v.(type) {
	case VIface:
		if x.Nil.IsTrue() {
			return nil
		}
		return rtypeOf(x.Val)
	case VOpaque:
		if x.Kind == "rtype" {
			t, _ := x.Data.(types.Type)
			return t
		}
	}
	unsupported("expected reflect.Type, got %T", v)
	return nil
}

func rvalOf(v Value) *RVal {
	o, ok := v.(VOpaque)
	if !ok || o.Kind != "rvalue" {
		unsupported("expected reflect.Value, got %T", v)
	}
	if o.Data == nil {
		return nil
	}
	return o.Data.(*RVal)
}

func mkRVal(r *RVal) VOpaque {
	if r == nil {
		return VOpaque{Kind: "rvalue"}
	}
	return VOpaque{Kind: "rvalue", Data: r}
}

func (e *Engine) rget(st *State, r *RVal) Value {
	if r.Addr != nil {
		return e.load(st, *r.Addr)
	}
	return r.Val
}

func kindOf(t types.Type) reflect.Kind {
	if t == nil {
		return reflect.Invalid
	}
	switch u := t.Underlying().(type) {
	case *types.Basic:
		switch u.Kind() {
		case types.Bool:
			return reflect.Bool
		case types.Int:
			return reflect.Int
		case types.Int8:
			return reflect.Int8
		case types.Int16:
			return reflect.Int16
		case types.Int32:
			return reflect.Int32
		case types.Int64:
			return reflect.Int64
		case types.Uint:
			return reflect.Uint
		case types.Uint8:
			return reflect.Uint8
		case types.Uint16:
			return reflect.Uint16
		case types.Uint32:
			return reflect.Uint32
		case types.Uint64:
			return reflect.Uint64
		case types.Uintptr:
			return reflect.Uintptr
		case types.Float32:
			return reflect.Float32
		case types.Float64:
			return reflect.Float64
		case types.String:
			return reflect.String
		case types.UnsafePointer:
			return reflect.UnsafePointer
		}
	case *types.Array:
		return reflect.Array
	case *types.Chan:
		return reflect.Chan
	case *types.Signature:
		return reflect.Func
	case *types.Interface:
		return reflect.Interface
	case *types.Map:
		return reflect.Map
	case *types.Pointer:
		return reflect.Pointer
	case *types.Slice:
		return reflect.Slice
	case *types.Struct:
		return reflect.Struct
	}
	unsupported("reflect kind of %s", t)
	return reflect.Invalid
}

func kindTerm(k reflect.Kind) *Term { return BVC(uint64(k), 64) }

func typeName(t types.Type) string {
	switch n := t.(type) {
	case *types.Named:
		// instantiated generics carry their type arguments in the name; not needed here
		return n.Obj().Name()
	case *types.Basic:
		return n.Name()
	case *types.Alias:
		return typeName(types.Unalias(t))
	}
	return ""
}

func (e *Engine) structFieldValue(st *State, t types.Type, i int) Value {
	stt, ok := t.Underlying().(*types.Struct)
	if !ok {
		unsupported("reflect Field on non-struct %s", t)
	}
	if i < 0 || i >= stt.NumFields() {
		unsupported("reflect Field index out of range")
	}
	f := stt.Field(i)
	sfT := lookupNamed(e.pkgs, "reflect", "StructField")
	if sfT == nil {
		unsupported("reflect.StructField type not loaded")
	}
	sst := sfT.Underlying().(*types.Struct)
	fs := make([]Value, sst.NumFields())
	for j := 0; j < sst.NumFields(); j++ {
		sf := sst.Field(j)
		switch sf.Name() {
		case "Name":
			fs[j] = ConstString(f.Name())
		case "PkgPath":
			if f.Exported() {
				fs[j] = ConstString("")
			} else {
				fs[j] = ConstString(f.Pkg().Path())
			}
		case "Type":
			fs[j] = e.rtypeIface(f.Type())
		case "Tag":
			fs[j] = ConstString(stt.Tag(i))
		case "Anonymous":
			fs[j] = BoolC(f.Embedded())
		case "Index":
			fs[j] = e.newSlice(st, types.Typ[types.Int], []Value{I64(int64(i))}, 1, "reflect.Field")
		default:
			fs[j] = Zero(sf.Type())
		}
	}
	return VStruct{Fields: fs}
}

// isZero: reflect.Value.IsZero as a term.
func (e *Engine) isZero(st *State, t types.Type, v Value) *Term {
	switch x := v.(type) {
	case *Term:
		if x.S.K == SBool {
			return Not(x)
		}
		return Eq(x, BVC(0, x.S.W))
	case VPtr:
		return x.Nil
	case VIface:
		return x.Nil
	case VSlice:
		return x.Nil
	case VMap:
		return x.Nil
	case VFunc:
		if x.Nil == nil {
			return False
		}
		return x.Nil
	case VString:
		return Eq(x.Len, I64(0))
	case VStruct:
		stt := t.Underlying().(*types.Struct)
		cs := make([]*Term, len(x.Fields))
		for i, f := range x.Fields {
			cs[i] = e.isZero(st, stt.Field(i).Type(), f)
		}
		return And(cs...)
	case VArray:
		at := t.Underlying().(*types.Array)
		cs := make([]*Term, len(x.Elems))
		for i, f := range x.Elems {
			cs[i] = e.isZero(st, at.Elem(), f)
		}
		return And(cs...)
	case VOpaque:
		if x.Kind == "float" {
			f, _ := x.Data.(float64)
			return BoolC(f == 0)
		}
	}
	unsupported("IsZero on %T", v)
	return nil
}

// deepEq: reflect.DeepEqual on modelled values (pointers are followed, byte slices and strings
// compared by content, nil and empty slices are different, maps only by identity)
func (e *Engine) deepEq(st *State, a, b Value, depth int) *Term {
	if depth > 10 {
		unsupported("reflect.DeepEqual: nesting deeper than 10")
	}
	switch av := a.(type) {
	case *Term:
		bv, ok := b.(*Term)
		if !ok || bv.S != av.S {
			return False
		}
		return Eq(av, bv)
	case VString:
		bv, ok := b.(VString)
		if !ok {
			return False
		}
		return StringEq(av, bv)
	case VPtr:
		bv, ok := b.(VPtr)
		if !ok {
			return False
		}
		if av.Nil.IsTrue() || bv.Nil.IsTrue() {
			return And(av.Nil, bv.Nil)
		}
		if av.Obj == bv.Obj && av.BIdx == nil && bv.BIdx == nil && pathStr(av.Path) == pathStr(bv.Path) {
			return Or(And(av.Nil, bv.Nil), And(Not(av.Nil), Not(bv.Nil)))
		}
		inner := e.deepEq(st, e.load(st, av), e.load(st, bv), depth+1)
		return Or(And(av.Nil, bv.Nil), And(Not(av.Nil), Not(bv.Nil), inner))
	case VIface:
		bv, ok := b.(VIface)
		if !ok {
			return False
		}
		if av.Nil.IsTrue() || bv.Nil.IsTrue() {
			return And(av.Nil, bv.Nil)
		}
		if !types.Identical(av.Dyn, bv.Dyn) {
			return And(av.Nil, bv.Nil)
		}
		return Or(And(av.Nil, bv.Nil), And(Not(av.Nil), Not(bv.Nil), e.deepEq(st, av.Val, bv.Val, depth+1)))
	case VStruct:
		bv, ok := b.(VStruct)
		if !ok || len(bv.Fields) != len(av.Fields) {
			return False
		}
		cs := make([]*Term, len(av.Fields))
		for i := range cs {
			cs[i] = e.deepEq(st, av.Fields[i], bv.Fields[i], depth+1)
		}
		return And(cs...)
	case VArray:
		bv, ok := b.(VArray)
		if !ok || len(bv.Elems) != len(av.Elems) {
			return False
		}
		cs := make([]*Term, len(av.Elems))
		for i := range cs {
			cs[i] = e.deepEq(st, av.Elems[i], bv.Elems[i], depth+1)
		}
		return And(cs...)
	case VSlice:
		bv, ok := b.(VSlice)
		if !ok || av.Bytes != bv.Bytes {
			return False
		}
		if av.Nil.IsTrue() || bv.Nil.IsTrue() {
			return And(av.Nil, bv.Nil)
		}
		if av.Bytes {
			return Or(And(av.Nil, bv.Nil), And(Not(av.Nil), Not(bv.Nil), e.bytesEq(st, av, bv, 80)))
		}
		al, ok1 := st.Conc(av.Len)
		bl, ok2 := st.Conc(bv.Len)
		ao, ok3 := st.Conc(av.Off)
		bo, ok4 := st.Conc(bv.Off)
		if !(ok1 && ok2 && ok3 && ok4) {
			unsupported("reflect.DeepEqual on a slice of symbolic geometry")
		}
		if al.Int() != bl.Int() {
			return And(av.Nil, bv.Nil)
		}
		cs := []*Term{}
		for i := 0; i < int(al.Int()); i++ {
			cs = append(cs, e.deepEq(st, st.Obj(av.Obj).Elems[int(ao.Int())+i], st.Obj(bv.Obj).Elems[int(bo.Int())+i], depth+1))
		}
		return Or(And(av.Nil, bv.Nil), And(Not(av.Nil), Not(bv.Nil), And(cs...)))
	case VMap:
		bv, ok := b.(VMap)
		if !ok {
			return False
		}
		if av.Obj == bv.Obj {
			return True
		}
		if av.Nil.IsTrue() || bv.Nil.IsTrue() {
			return And(av.Nil, bv.Nil)
		}
		unsupported("reflect.DeepEqual on two different maps")
	case VOpaque:
		bv, ok := b.(VOpaque)
		return BoolC(ok && av.Kind == bv.Kind && opaqueEqual(av.Data, bv.Data))
	}
	unsupported("reflect.DeepEqual on %T", a)
	return nil
}

func registerReflect(e *Engine) {
	e.intr["reflect.DeepEqual"] = func(e *Engine, c *CallCtx) []Outcome {
		return one(c.St, e.deepEq(c.St, c.Args[0], c.Args[1], 0))
	}
	e.intr["reflect.TypeOf"] = func(e *Engine, c *CallCtx) []Outcome {
		i := c.Args[0].(VIface)
		if i.Nil.IsTrue() {
			return one(c.St, NilIface())
		}
		if !i.Nil.IsFalse() {
			var outs []Outcome
			t, f := e.branch(c.St, i.Nil)
			if t {
				s2 := c.St
				if f {
					s2 = c.St.Fork()
				}
				s2.Assume(i.Nil)
				outs = append(outs, Outcome{St: s2, Ret: NilIface()})
			}
			if f {
				c.St.Assume(Not(i.Nil))
				outs = append(outs, Outcome{St: c.St, Ret: e.rtypeIface(i.Dyn)})
			}
			return outs
		}
		return one(c.St, e.rtypeIface(i.Dyn))
	}
	e.intr["reflect.ValueOf"] = func(e *Engine, c *CallCtx) []Outcome {
		i := c.Args[0].(VIface)
		if i.Nil.IsTrue() {
			return one(c.St, mkRVal(nil))
		}
		if !i.Nil.IsFalse() {
			var outs []Outcome
			t, f := e.branch(c.St, i.Nil)
			if t {
				s2 := c.St
				if f {
					s2 = c.St.Fork()
				}
				s2.Assume(i.Nil)
				outs = append(outs, Outcome{St: s2, Ret: mkRVal(nil)})
			}
			if f {
				c.St.Assume(Not(i.Nil))
				outs = append(outs, Outcome{St: c.St, Ret: mkRVal(&RVal{Typ: i.Dyn, Val: i.Val})})
			}
			return outs
		}
		return one(c.St, mkRVal(&RVal{Typ: i.Dyn, Val: i.Val}))
	}
	rt := "invoke:*reflect.rtype."
	e.intr[rt+"Kind"] = func(e *Engine, c *CallCtx) []Outcome {
		return one(c.St, kindTerm(kindOf(rtypeOf(c.Args[0]))))
	}
	e.intr[rt+"Elem"] = func(e *Engine, c *CallCtx) []Outcome {
		t := rtypeOf(c.Args[0])
		switch u := t.Underlying().(type) {
		case *types.Pointer:
			return one(c.St, e.rtypeIface(u.Elem()))
		case *types.Slice:
			return one(c.St, e.rtypeIface(u.Elem()))
		case *types.Array:
			return one(c.St, e.rtypeIface(u.Elem()))
		case *types.Map:
			return one(c.St, e.rtypeIface(u.Elem()))
		}
		return []Outcome{{St: c.St, Panic: &PanicInfo{Kind: "reflect-elem", Site: c.Site}}}
	}
	e.intr[rt+"Name"] = func(e *Engine, c *CallCtx) []Outcome {
		return one(c.St, ConstString(typeName(rtypeOf(c.Args[0]))))
	}
	e.intr[rt+"String"] = func(e *Engine, c *CallCtx) []Outcome {
		return one(c.St, ConstString(types.TypeString(rtypeOf(c.Args[0]), nil)))
	}
	e.intr[rt+"NumField"] = func(e *Engine, c *CallCtx) []Outcome {
		stt, ok := rtypeOf(c.Args[0]).Underlying().(*types.Struct)
		if !ok {
			return []Outcome{{St: c.St, Panic: &PanicInfo{Kind: "reflect-numfield", Site: c.Site}}}
		}
		return one(c.St, I64(int64(stt.NumFields())))
	}
	e.intr[rt+"Field"] = func(e *Engine, c *CallCtx) []Outcome {
		t := rtypeOf(c.Args[0])
		i, ok := c.St.Conc(c.Args[1].(*Term))
		if !ok {
			unsupported("reflect Field with symbolic index")
		}
		if _, ok := t.Underlying().(*types.Struct); !ok {
			return []Outcome{{St: c.St, Panic: &PanicInfo{Kind: "reflect-field", Site: c.Site}}}
		}
		return one(c.St, e.structFieldValue(c.St, t, int(i.Int())))
	}
	rv := "(reflect.Value)."
	e.intr[rv+"Kind"] = func(e *Engine, c *CallCtx) []Outcome {
		r := rvalOf(c.Args[0])
		if r == nil {
			return one(c.St, kindTerm(reflect.Invalid))
		}
		return one(c.St, kindTerm(kindOf(r.Typ)))
	}
	e.intr[rv+"IsValid"] = func(e *Engine, c *CallCtx) []Outcome {
		return one(c.St, BoolC(rvalOf(c.Args[0]) != nil))
	}
	e.intr[rv+"Type"] = func(e *Engine, c *CallCtx) []Outcome {
		r := rvalOf(c.Args[0])
		if r == nil {
			return []Outcome{{St: c.St, Panic: &PanicInfo{Kind: "reflect-zero-value", Site: c.Site}}}
		}
		return one(c.St, e.rtypeIface(r.Typ))
	}
	e.intr[rv+"Elem"] = func(e *Engine, c *CallCtx) []Outcome {
		r := rvalOf(c.Args[0])
		if r == nil {
			return []Outcome{{St: c.St, Panic: &PanicInfo{Kind: "reflect-zero-value", Site: c.Site}}}
		}
		v := e.rget(c.St, r)
		switch u := r.Typ.Underlying().(type) {
		case *types.Pointer:
			p := v.(VPtr)
			if p.Nil.IsTrue() {
				return one(c.St, mkRVal(nil))
			}
			if !p.Nil.IsFalse() {
				// fork on nil-ness
				var outs []Outcome
				if e.feasible(c.St, p.Nil) != Unsat {
					s2 := c.St.Fork()
					s2.Assume(p.Nil)
					outs = append(outs, Outcome{St: s2, Ret: mkRVal(nil)})
				}
				if e.feasible(c.St, Not(p.Nil)) != Unsat {
					c.St.Assume(Not(p.Nil))
					pp := p
					pp.Nil = False
					outs = append(outs, Outcome{St: c.St, Ret: mkRVal(&RVal{Typ: u.Elem(), Addr: &pp})})
				}
				return outs
			}
			return one(c.St, mkRVal(&RVal{Typ: u.Elem(), Addr: &p}))
		case *types.Interface:
			iv := v.(VIface)
			if iv.Nil.IsTrue() {
				return one(c.St, mkRVal(nil))
			}
			if !iv.Nil.IsFalse() {
				var outs []Outcome
				if e.feasible(c.St, iv.Nil) != Unsat {
					s2 := c.St.Fork()
					s2.Assume(iv.Nil)
					outs = append(outs, Outcome{St: s2, Ret: mkRVal(nil)})
				}
				if e.feasible(c.St, Not(iv.Nil)) != Unsat {
					c.St.Assume(Not(iv.Nil))
					outs = append(outs, Outcome{St: c.St, Ret: mkRVal(&RVal{Typ: iv.Dyn, Val: iv.Val})})
				}
				return outs
			}
			return one(c.St, mkRVal(&RVal{Typ: iv.Dyn, Val: iv.Val}))
		}
		return []Outcome{{St: c.St, Panic: &PanicInfo{Kind: "reflect-elem", Site: c.Site}}}
	}
	e.intr[rv+"NumField"] = func(e *Engine, c *CallCtx) []Outcome {
		r := rvalOf(c.Args[0])
		if r == nil {
			return []Outcome{{St: c.St, Panic: &PanicInfo{Kind: "reflect-zero-value", Site: c.Site}}}
		}
		stt, ok := r.Typ.Underlying().(*types.Struct)
		if !ok {
			return []Outcome{{St: c.St, Panic: &PanicInfo{Kind: "reflect-numfield-nonstruct", Site: c.Site}}}
		}
		return one(c.St, I64(int64(stt.NumFields())))
	}
	e.intr[rv+"Field"] = func(e *Engine, c *CallCtx) []Outcome {
		r := rvalOf(c.Args[0])
		if r == nil {
			return []Outcome{{St: c.St, Panic: &PanicInfo{Kind: "reflect-zero-value", Site: c.Site}}}
		}
		stt, ok := r.Typ.Underlying().(*types.Struct)
		if !ok {
			return []Outcome{{St: c.St, Panic: &PanicInfo{Kind: "reflect-field-nonstruct", Site: c.Site}}}
		}
		ic, ok := c.St.Conc(c.Args[1].(*Term))
		if !ok {
			unsupported("reflect Field with symbolic index")
		}
		i := int(ic.Int())
		if i < 0 || i >= stt.NumFields() {
			return []Outcome{{St: c.St, Panic: &PanicInfo{Kind: "reflect-field-index", Site: c.Site}}}
		}
		ft := stt.Field(i).Type()
		if r.Addr != nil {
			p := VPtr{Nil: False, Obj: r.Addr.Obj, Path: append(append([]int(nil), r.Addr.Path...), i)}
			return one(c.St, mkRVal(&RVal{Typ: ft, Addr: &p}))
		}
		return one(c.St, mkRVal(&RVal{Typ: ft, Val: r.Val.(VStruct).Fields[i]}))
	}
	e.intr[rv+"IsZero"] = func(e *Engine, c *CallCtx) []Outcome {
		r := rvalOf(c.Args[0])
		if r == nil {
			return []Outcome{{St: c.St, Panic: &PanicInfo{Kind: "reflect-zero-value", Site: c.Site}}}
		}
		return one(c.St, e.isZero(c.St, r.Typ, e.rget(c.St, r)))
	}
	e.intr[rv+"IsNil"] = func(e *Engine, c *CallCtx) []Outcome {
		r := rvalOf(c.Args[0])
		if r == nil {
			return []Outcome{{St: c.St, Panic: &PanicInfo{Kind: "reflect-zero-value", Site: c.Site}}}
		}
		return one(c.St, e.isZero(c.St, r.Typ, e.rget(c.St, r)))
	}
	e.intr[rv+"Interface"] = func(e *Engine, c *CallCtx) []Outcome {
		r := rvalOf(c.Args[0])
		if r == nil {
			return []Outcome{{St: c.St, Panic: &PanicInfo{Kind: "reflect-zero-value", Site: c.Site}}}
		}
		v := e.rget(c.St, r)
		if types.IsInterface(r.Typ) {
			return one(c.St, v)
		}
		return one(c.St, VIface{Nil: False, Dyn: r.Typ, Val: v})
	}
	e.intr[rv+"Len"] = func(e *Engine, c *CallCtx) []Outcome {
		r := rvalOf(c.Args[0])
		if r == nil {
			return []Outcome{{St: c.St, Panic: &PanicInfo{Kind: "reflect-zero-value", Site: c.Site}}}
		}
		switch v := e.rget(c.St, r).(type) {
		case VString:
			return one(c.St, v.Len)
		case VSlice:
			return one(c.St, v.Len)
		case VArray:
			return one(c.St, I64(int64(len(v.Elems))))
		case VMap:
			if v.Nil.IsTrue() {
				return one(c.St, I64(0))
			}
			if v.Nil.IsFalse() {
				return one(c.St, I64(int64(len(c.St.Obj(v.Obj).Entries))))
			}
		}
		unsupported("reflect.Value.Len on %s", r.Typ)
		return nil
	}
	scalar := func(name string) {
		e.intr[rv+name] = func(e *Engine, c *CallCtx) []Outcome {
			r := rvalOf(c.Args[0])
			if r == nil {
				return []Outcome{{St: c.St, Panic: &PanicInfo{Kind: "reflect-zero-value", Site: c.Site}}}
			}
			switch v := e.rget(c.St, r).(type) {
			case *Term:
				if v.S.K == SBool || v.S.W == 64 {
					return one(c.St, v)
				}
				if _, signed, ok := basicWidth(r.Typ); ok && signed {
					return one(c.St, SExt(v, 64))
				}
				return one(c.St, ZExt(v, 64))
			case VString:
				return one(c.St, v)
			case VSlice:
				return one(c.St, v)
			}
			unsupported("reflect.Value.%s on %s", name, r.Typ)
			return nil
		}
	}
	for _, n := range []string{"Int", "Uint", "Bool", "String", "Bytes"} {
		scalar(n)
	}
	e.intr[rv+"SetString"] = func(e *Engine, c *CallCtx) []Outcome {
		r := rvalOf(c.Args[0])
		if r == nil || r.Addr == nil {
			return []Outcome{{St: c.St, Panic: &PanicInfo{Kind: "reflect-unaddressable", Site: c.Site}}}
		}
		e.store(c.St, *r.Addr, c.Args[1], c.Site)
		return one(c.St, nil)
	}
	e.intr[rv+"Addr"] = func(e *Engine, c *CallCtx) []Outcome {
		r := rvalOf(c.Args[0])
		if r == nil || r.Addr == nil {
			return []Outcome{{St: c.St, Panic: &PanicInfo{Kind: "reflect-unaddressable", Site: c.Site}}}
		}
		return one(c.St, mkRVal(&RVal{Typ: types.NewPointer(r.Typ), Val: *r.Addr}))
	}
	e.intr["(reflect.StructTag).Lookup"] = func(e *Engine, c *CallCtx) []Outcome {
		tag, ok1 := c.Args[0].(VString).Concrete()
		key, ok2 := c.Args[1].(VString).Concrete()
		if !ok1 || !ok2 {
			unsupported("StructTag.Lookup on symbolic strings")
		}
		v, ok := reflect.StructTag(tag).Lookup(key)
		return one(c.St, VTuple{Elems: []Value{ConstString(v), BoolC(ok)}})
	}
	e.intr["(reflect.StructTag).Get"] = func(e *Engine, c *CallCtx) []Outcome {
		tag, ok1 := c.Args[0].(VString).Concrete()
		key, ok2 := c.Args[1].(VString).Concrete()
		if !ok1 || !ok2 {
			unsupported("StructTag.Get on symbolic strings")
		}
		return one(c.St, ConstString(reflect.StructTag(tag).Get(key)))
	}
	e.intr["(reflect.Kind).String"] = func(e *Engine, c *CallCtx) []Outcome {
		k, ok := c.St.Conc(c.Args[0].(*Term))
		if !ok {
			unsupported("Kind.String on symbolic kind")
		}
		return one(c.St, ConstString(reflect.Kind(k.Uint()).String()))
	}
}

var _ = ssa.NaiveForm
