package main

func registerCose(e *Engine)    {}
func registerGhost(e *Engine)   {}
