package main

// Memory model and data instructions.

import (
	"fmt"
	"go/token"
	"go/types"

	"golang.org/x/tools/go/ssa"
)

func (e *Engine) load(st *State, p VPtr) Value {
	o := st.Obj(p.Obj)
	if p.BIdx != nil {
		if o.Kind != KBytes {
			unsupported("byte pointer into non-byte object")
		}
		return Select(o.Arr, p.BIdx)
	}
	if o.Kind != KCell {
		unsupported("load from object kind %d", o.Kind)
	}
	defer func() {
		if r := recover(); r != nil {
			if _, isU := r.(Unsupported); isU {
				panic(r)
			}
			panic(fmt.Sprintf("load %v path %v from object %d (%s, typ %s) value %s: %v", p.Obj, p.Path, p.Obj, o.Site, o.Typ, describe(o.Val), r))
		}
	}()
	return getPath(o.Val, p.Path)
}

func (e *Engine) store(st *State, p VPtr, v Value, site string) {
	o := st.Obj(p.Obj)
	n := *o
	if p.BIdx != nil {
		n.Arr = Store(o.Arr, p.BIdx, v.(*Term))
	} else {
		n.Val = setPath(o.Val, p.Path, v)
	}
	st.SetObj(p.Obj, &n)
	if e.cfg.TrackWrite && o.Epoch < st.epoch {
		st.writes = append(st.writes, WriteRec{Obj: p.Obj, Path: pathStr(p.Path), Site: site})
	}
}

// ---------- equality ----------

func (e *Engine) valEq(a, b Value) *Term {
	switch av := a.(type) {
	case *Term:
		return Eq(av, b.(*Term))
	case VPtr:
		bv := b.(VPtr)
		same := False
		if av.Obj == bv.Obj && len(av.Path) == len(bv.Path) && (av.BIdx == nil) == (bv.BIdx == nil) {
			same = True
			for i := range av.Path {
				if av.Path[i] != bv.Path[i] {
					same = False
				}
			}
			if same.IsTrue() && av.BIdx != nil {
				same = Eq(av.BIdx, bv.BIdx)
			}
		}
		return Or(And(av.Nil, bv.Nil), And(Not(av.Nil), Not(bv.Nil), same))
	case VIface:
		bv := b.(VIface)
		both := False
		if !av.Nil.IsTrue() && !bv.Nil.IsTrue() && types.Identical(av.Dyn, bv.Dyn) {
			both = e.valEq(av.Val, bv.Val)
		}
		return Or(And(av.Nil, bv.Nil), And(Not(av.Nil), Not(bv.Nil), both))
	case VString:
		return StringEq(av, b.(VString))
	case VStruct:
		bv := b.(VStruct)
		cs := make([]*Term, len(av.Fields))
		for i := range cs {
			cs[i] = e.valEq(av.Fields[i], bv.Fields[i])
		}
		return And(cs...)
	case VArray:
		bv := b.(VArray)
		cs := make([]*Term, len(av.Elems))
		for i := range cs {
			cs[i] = e.valEq(av.Elems[i], bv.Elems[i])
		}
		return And(cs...)
	case VSlice:
		bv := b.(VSlice)
		return And(av.Nil, bv.Nil) // slices are only comparable with nil
	case VMap:
		bv := b.(VMap)
		return Or(And(av.Nil, bv.Nil), And(Not(av.Nil), Not(bv.Nil), BoolC(av.Obj == bv.Obj)))
	case VFunc:
		bv := b.(VFunc)
		an, bn := av.Nil, bv.Nil
		if an == nil {
			an = False
		}
		if bn == nil {
			bn = False
		}
		return And(an, bn)
	case VOpaque:
		bv, ok := b.(VOpaque)
		if ok && av.Kind == bv.Kind && opaqueEqual(av.Data, bv.Data) {
			return True
		}
		if ok && av.Kind == "float" {
			af, _ := av.Data.(float64)
			bf, _ := bv.Data.(float64)
			return BoolC(af == bf)
		}
		return False
	}
	unsupported("equality on %T", a)
	return nil
}

// ---------- BinOp ----------

func (pc *pathCtx) binop(it *item, x *ssa.BinOp) Value {
	a := pc.val(it, x.X)
	b := pc.val(it, x.Y)
	switch x.Op {
	case token.EQL:
		return pc.e.valEq(a, b)
	case token.NEQ:
		return Not(pc.e.valEq(a, b))
	}
	switch av := a.(type) {
	case *Term:
		bv := b.(*Term)
		_, signed, _ := basicWidth(x.X.Type())
		switch x.Op {
		case token.ADD:
			return BinBV(OAdd, av, bv)
		case token.SUB:
			return BinBV(OSub, av, bv)
		case token.MUL:
			return BinBV(OMul, av, bv)
		case token.QUO, token.REM:
			if !pc.panicIf(it, Eq(bv, BVC(0, bv.S.W)), "div-by-zero", x) {
				return nil
			}
			op := OUDiv
			if x.Op == token.REM {
				op = OURem
			}
			if signed {
				op = OSDiv
				if x.Op == token.REM {
					op = OSRem
				}
			}
			return BinBV(op, av, bv)
		case token.AND:
			return BinBV(OBAnd, av, bv)
		case token.OR:
			return BinBV(OBOr, av, bv)
		case token.XOR:
			return BinBV(OBXor, av, bv)
		case token.AND_NOT:
			return BinBV(OBAnd, av, BNot(bv))
		case token.SHL, token.SHR:
			w := av.S.W
			cnt := bv
			if cnt.S.W > w {
				big := CmpBV(OULe, BVC(uint64(w), cnt.S.W), cnt)
				cnt = Ite(big, BVC(uint64(w), w), Extract(cnt, w-1, 0))
			} else if cnt.S.W < w {
				cnt = ZExt(cnt, w)
			}
			if x.Op == token.SHL {
				return BinBV(OShl, av, cnt)
			}
			if signed {
				return BinBV(OAShr, av, cnt)
			}
			return BinBV(OLShr, av, cnt)
		case token.LSS, token.LEQ, token.GTR, token.GEQ:
			lt, le := OULt, OULe
			if signed {
				lt, le = OSLt, OSLe
			}
			switch x.Op {
			case token.LSS:
				return CmpBV(lt, av, bv)
			case token.LEQ:
				return CmpBV(le, av, bv)
			case token.GTR:
				return CmpBV(lt, bv, av)
			default:
				return CmpBV(le, bv, av)
			}
		}
	case VString:
		bv := b.(VString)
		switch x.Op {
		case token.ADD:
			return stringConcat(av, bv)
		case token.LSS, token.LEQ, token.GTR, token.GEQ:
			as, ok1 := av.Concrete()
			bs, ok2 := bv.Concrete()
			if ok1 && ok2 {
				switch x.Op {
				case token.LSS:
					return BoolC(as < bs)
				case token.LEQ:
					return BoolC(as <= bs)
				case token.GTR:
					return BoolC(as > bs)
				default:
					return BoolC(as >= bs)
				}
			}
		}
	}
	unsupported("binop %s on %T at %s", x.Op, a, siteOf(x))
	return nil
}

func stringConcat(a, b VString) VString {
	if a.Len.IsConst() {
		n := int(a.Len.Int())
		bs := append(append([]*Term(nil), a.B[:n]...), b.B...)
		return VString{Len: BinBV(OAdd, a.Len, b.Len), B: bs}
	}
	if b.Len.IsConst() && b.Len.Int() == 0 {
		return a
	}
	// general case: position-wise ite over the split point (bounded by cap(a))
	n := len(a.B) + len(b.B)
	bs := make([]*Term, n)
	for i := 0; i < n; i++ {
		var v *Term = BVC(0, 8)
		// byte i comes from a if i < len(a) else from b[i-len(a)]
		for la := len(a.B); la >= 0; la-- {
			j := i - la
			var cand *Term
			if i < la {
				cand = a.B[i]
			} else if j < len(b.B) {
				cand = b.B[j]
			} else {
				cand = BVC(0, 8)
			}
			v = Ite(Eq(a.Len, I64(int64(la))), cand, v)
		}
		bs[i] = v
	}
	return VString{Len: BinBV(OAdd, a.Len, b.Len), B: bs}
}

// ---------- UnOp ----------

func (pc *pathCtx) unop(it *item, x *ssa.UnOp) bool {
	v := pc.val(it, x.X)
	switch x.Op {
	case token.MUL:
		p := v.(VPtr)
		if !pc.panicIf(it, p.Nil, "nil-deref", x) {
			return false
		}
		if debugCheck {
			func() {
				defer func() {
					if r := recover(); r != nil {
						if _, isU := r.(Unsupported); isU {
							panic(r)
						}
						panic(fmt.Sprintf("at %s: %s = *%s (operand defined by %T %v): %v\npc=%v", siteOf(x), x.Name(), x.X.Name(), x.X, x.X, r, it.st.pc[len(it.st.pc)-3:]))
					}
				}()
				pc.e.load(it.st, p)
			}()
		}
		it.fr.locals[x] = pc.e.load(it.st, p)
		return true
	case token.NOT:
		it.fr.locals[x] = Not(v.(*Term))
		return true
	case token.SUB:
		it.fr.locals[x] = Neg(v.(*Term))
		return true
	case token.XOR:
		it.fr.locals[x] = BNot(v.(*Term))
		return true
	}
	unsupported("unop %s at %s", x.Op, siteOf(x))
	return false
}

// ---------- Convert ----------

func (pc *pathCtx) convert(it *item, x *ssa.Convert) Value {
	v := pc.val(it, x.X)
	src, dst := x.X.Type(), x.Type()
	if dw, _, ok := basicWidth(dst); ok {
		if t, isT := v.(*Term); isT && t.S.K == SBV {
			_, ssigned, _ := basicWidth(src)
			if dw > t.S.W {
				if ssigned {
					return SExt(t, dw)
				}
				return ZExt(t, dw)
			}
			return Extract(t, dw-1, 0)
		}
	}
	if sv, ok := v.(VString); ok && isByteSlice(dst) {
		arr := ConstArr(0)
		for i, b := range sv.B {
			arr = Store(arr, I64(int64(i)), b)
		}
		id := it.st.Alloc(&Object{Kind: KBytes, Typ: types.Typ[types.Uint8], Arr: arr, Site: siteOf(x)})
		return VSlice{Nil: False, Obj: id, Off: I64(0), Len: sv.Len, Cap: sv.Len, Bytes: true}
	}
	if sl, ok := v.(VSlice); ok && sl.Bytes {
		if b, isB := dst.Underlying().(*types.Basic); isB && b.Info()&types.IsString != 0 {
			return pc.bytesToString(it, sl, x)
		}
	}
	if _, ok := v.(VString); ok {
		if b, isB := dst.Underlying().(*types.Basic); isB && b.Info()&types.IsString != 0 {
			return v
		}
	}
	if sl, ok := v.(VSlice); ok {
		if _, isS := dst.Underlying().(*types.Slice); isS {
			return sl
		}
	}
	unsupported("convert %s -> %s at %s", src, dst, siteOf(x))
	return nil
}

func (pc *pathCtx) bytesToString(it *item, sl VSlice, in ssa.Instruction) VString {
	e := pc.e
	cap := e.cfg.StrCap
	if sl.Obj == 0 {
		return ConstString("")
	}
	if c, ok := it.st.Conc(sl.Len); ok {
		cap = int(c.Int())
	} else {
		// bound: longer strings are outside the claim; record if feasible
		over := CmpBV(OSLt, I64(int64(cap)), sl.Len)
		if e.feasible(it.st, over) != Unsat {
			e.noteBound(fmt.Sprintf("string(b) with len > %d at %s", cap, siteOf(in)))
		}
		it.st.Assume(Not(over))
	}
	bs := make([]*Term, cap)
	if cap > 0 {
		o := it.st.Obj(sl.Obj)
		for i := 0; i < cap; i++ {
			bs[i] = Select(o.Arr, BinBV(OAdd, sl.Off, I64(int64(i))))
		}
	}
	return VString{Len: sl.Len, B: bs}
}

func (e *Engine) noteBound(msg string) {
	for _, m := range e.Unwinding {
		if m == msg {
			return
		}
	}
	e.Unwinding = append(e.Unwinding, msg)
}

// ---------- concretisation ----------

// concInt returns the concrete value of t on this path, forking the path (re-executing the
// current instruction) for alternative feasible values. ok=false if the path ended.
func (pc *pathCtx) concInt(it *item, t *Term, in ssa.Instruction) (int64, bool) {
	if c, ok := it.st.Conc(t); ok {
		return c.Int(), true
	}
	e := pc.e
	const limit = 32
	var vals []*Term
	var blocks []*Term
	for len(vals) <= limit {
		as := append(append([]*Term(nil), it.st.pc...), blocks...)
		as = append(as, e.exclude...)
		r := e.solver.Check(as)
		if r == Unsat {
			break
		}
		if r == Unknown {
			unsupported("solver unknown while concretising at %s", siteOf(in))
		}
		vs, err := e.solver.Values([]*Term{t})
		if err != nil {
			unsupported("model read failed while concretising")
		}
		c := BVC(vs[0], t.S.W)
		vals = append(vals, c)
		blocks = append(blocks, Not(Eq(t, c)))
	}
	if len(vals) > limit {
		unsupported("more than %d feasible values for index/length at %s", limit, siteOf(in))
	}
	if len(vals) == 0 {
		e.Infeasible++
		return 0, false
	}
	for _, c := range vals[1:] {
		o := &item{st: it.st.Fork(), fr: it.fr.fork()}
		o.fr.idx-- // re-execute this instruction
		o.st.Assume(Eq(t, c))
		o.st.eqs[t.ID] = c
		*pc.work = append(*pc.work, o)
		e.States++
	}
	it.st.Assume(Eq(t, vals[0]))
	it.st.eqs[t.ID] = vals[0]
	return vals[0].Int(), true
}

// ---------- Index / IndexAddr ----------

func (pc *pathCtx) index(it *item, x *ssa.Index) bool {
	v := pc.val(it, x.X)
	idx := pc.term(it, x.Index)
	idx = toI64(idx, x.Index.Type())
	switch xv := v.(type) {
	case VString:
		if !pc.panicIf(it, Not(CmpBV(OULt, idx, xv.Len)), "index-out-of-range", x) {
			return false
		}
		it.fr.locals[x] = stringAt(xv, idx)
		return true
	case VArray:
		if c, ok := it.st.Conc(idx); ok {
			i := c.Int()
			if i < 0 || int(i) >= len(xv.Elems) {
				*pc.outs = append(*pc.outs, Outcome{St: it.st, Panic: &PanicInfo{Kind: "index-out-of-range", Site: siteOf(x)}})
				return false
			}
			it.fr.locals[x] = xv.Elems[i]
			return true
		}
		i, ok := pc.concInt(it, idx, x)
		if !ok {
			return false
		}
		if i < 0 || int(i) >= len(xv.Elems) {
			*pc.outs = append(*pc.outs, Outcome{St: it.st, Panic: &PanicInfo{Kind: "index-out-of-range", Site: siteOf(x)}})
			return false
		}
		it.fr.locals[x] = xv.Elems[i]
		return true
	}
	unsupported("index on %T", v)
	return false
}

func stringAt(s VString, idx *Term) *Term {
	if idx.IsConst() {
		i := int(idx.Int())
		if i >= 0 && i < len(s.B) {
			return s.B[i]
		}
		return BVC(0, 8)
	}
	var v *Term = BVC(0, 8)
	for i := len(s.B) - 1; i >= 0; i-- {
		v = Ite(Eq(idx, I64(int64(i))), s.B[i], v)
	}
	return v
}

func toI64(t *Term, typ types.Type) *Term {
	if t.S.W == 64 {
		return t
	}
	_, signed, _ := basicWidth(typ)
	if signed {
		return SExt(t, 64)
	}
	return ZExt(t, 64)
}

func (pc *pathCtx) indexAddr(it *item, x *ssa.IndexAddr) bool {
	v := pc.val(it, x.X)
	idx := toI64(pc.term(it, x.Index), x.Index.Type())
	switch xv := v.(type) {
	case VSlice:
		if xv.Bytes {
			if !pc.panicIf(it, Not(CmpBV(OULt, idx, xv.Len)), "index-out-of-range", x) {
				return false
			}
			it.fr.locals[x] = VPtr{Nil: False, Obj: xv.Obj, BIdx: BinBV(OAdd, xv.Off, idx)}
			return true
		}
		n, ok := pc.concInt(it, xv.Len, x)
		if !ok {
			return false
		}
		i, ok := pc.concInt(it, idx, x)
		if !ok {
			return false
		}
		if i < 0 || i >= n {
			*pc.outs = append(*pc.outs, Outcome{St: it.st, Panic: &PanicInfo{Kind: "index-out-of-range", Site: siteOf(x)}})
			return false
		}
		off, _ := pc.concInt(it, xv.Off, x)
		it.fr.locals[x] = VPtr{Nil: False, Obj: xv.Obj, Path: []int{int(off + i)}}
		return true
	case VPtr:
		if !pc.panicIf(it, xv.Nil, "nil-deref", x) {
			return false
		}
		at := x.X.Type().Underlying().(*types.Pointer).Elem().Underlying().(*types.Array)
		if isByte(at.Elem()) && it.st.Obj(xv.Obj).Kind == KBytes {
			if !pc.panicIf(it, Not(CmpBV(OULt, idx, I64(at.Len()))), "index-out-of-range", x) {
				return false
			}
			it.fr.locals[x] = VPtr{Nil: False, Obj: xv.Obj, BIdx: idx}
			return true
		}
		i, ok := pc.concInt(it, idx, x)
		if !ok {
			return false
		}
		if i < 0 || i >= at.Len() {
			*pc.outs = append(*pc.outs, Outcome{St: it.st, Panic: &PanicInfo{Kind: "index-out-of-range", Site: siteOf(x)}})
			return false
		}
		it.fr.locals[x] = VPtr{Nil: False, Obj: xv.Obj, Path: append(append([]int(nil), xv.Path...), int(i))}
		return true
	}
	unsupported("indexaddr on %T at %s", v, siteOf(x))
	return false
}

// ---------- maps ----------

func (pc *pathCtx) lookup(it *item, x *ssa.Lookup) bool {
	v := pc.val(it, x.X)
	if sv, ok := v.(VString); ok {
		idx := toI64(pc.term(it, x.Index), x.Index.Type())
		if !pc.panicIf(it, Not(CmpBV(OULt, idx, sv.Len)), "index-out-of-range", x) {
			return false
		}
		it.fr.locals[x] = stringAt(sv, idx)
		return true
	}
	m := v.(VMap)
	key := pc.val(it, x.Index)
	mt := x.X.Type().Underlying().(*types.Map)
	zero := Zero(mt.Elem())
	var entries []MapEntry
	if !m.Nil.IsTrue() {
		entries = it.st.Obj(m.Obj).Entries
	}
	// try a merged (ite) lookup first
	val := zero
	found := False
	okMerge := true
	for i := len(entries) - 1; i >= 0; i-- {
		eq := And(Not(m.Nil), it.st.Simp(pc.e.valEq(key, entries[i].Key)))
		if eq.IsFalse() {
			continue
		}
		mv, ok := mergeVal(eq, entries[i].Val, val)
		if !ok {
			okMerge = false
			break
		}
		val = mv
		found = Or(eq, found)
	}
	set := func(t *item, val Value, found *Term) {
		if x.CommaOk {
			t.fr.locals[x] = VTuple{Elems: []Value{val, found}}
		} else {
			t.fr.locals[x] = val
		}
	}
	if okMerge {
		set(it, val, found)
		return true
	}
	// fork per entry
	var none []*Term
	first := true
	cur := it
	for i := range entries {
		eq := And(Not(m.Nil), pc.e.valEq(key, entries[i].Key))
		none = append(none, Not(eq))
		if pc.e.feasible(it.st, eq) == Unsat {
			continue
		}
		t := &item{st: it.st.Fork(), fr: it.fr.fork()}
		t.st.Assume(eq)
		set(t, entries[i].Val, True)
		*pc.work = append(*pc.work, t)
		pc.e.States++
		_ = first
	}
	nf := And(none...)
	if pc.e.feasible(cur.st, nf) == Unsat {
		return false
	}
	cur.st.Assume(nf)
	set(cur, zero, False)
	return true
}

func (pc *pathCtx) mapUpdate(it *item, x *ssa.MapUpdate) bool {
	m := pc.val(it, x.Map).(VMap)
	if !pc.panicIf(it, m.Nil, "nil-map-write", x) {
		return false
	}
	key := pc.val(it, x.Key)
	val := pc.val(it, x.Value)
	o := it.st.Obj(m.Obj)
	var none []*Term
	for i := range o.Entries {
		eq := it.st.Simp(pc.e.valEq(key, o.Entries[i].Key))
		if eq.IsFalse() {
			continue
		}
		if eq.IsTrue() {
			n := *o
			n.Entries = append([]MapEntry(nil), o.Entries...)
			n.Entries[i] = MapEntry{o.Entries[i].Key, val}
			it.st.SetObj(m.Obj, &n)
			pc.noteWrite(it, m.Obj, o, x)
			return true
		}
		none = append(none, Not(eq))
		if pc.e.feasible(it.st, eq) == Unsat {
			continue
		}
		t := &item{st: it.st.Fork(), fr: it.fr.fork()}
		t.st.Assume(eq)
		n := *o
		n.Entries = append([]MapEntry(nil), o.Entries...)
		n.Entries[i] = MapEntry{o.Entries[i].Key, val}
		t.st.SetObj(m.Obj, &n)
		*pc.work = append(*pc.work, t)
		pc.e.States++
	}
	nf := And(none...)
	if pc.e.feasible(it.st, nf) == Unsat {
		return false
	}
	it.st.Assume(nf)
	n := *o
	n.Entries = append(append([]MapEntry(nil), o.Entries...), MapEntry{key, val})
	it.st.SetObj(m.Obj, &n)
	pc.noteWrite(it, m.Obj, o, x)
	return true
}

func (pc *pathCtx) noteWrite(it *item, id ObjID, o *Object, in ssa.Instruction) {
	if pc.e.cfg.TrackWrite && o.Epoch < it.st.epoch {
		it.st.writes = append(it.st.writes, WriteRec{Obj: id, Path: "[map]", Site: siteOf(in)})
	}
}

func (pc *pathCtx) mapDelete(it *item, m VMap, key Value, in ssa.Instruction) bool {
	if m.Nil.IsTrue() {
		return true
	}
	o := it.st.Obj(m.Obj)
	var none []*Term
	for i := range o.Entries {
		eq := it.st.Simp(And(Not(m.Nil), pc.e.valEq(key, o.Entries[i].Key)))
		if eq.IsFalse() {
			continue
		}
		del := func(st *State) {
			n := *o
			n.Entries = append(append([]MapEntry(nil), o.Entries[:i]...), o.Entries[i+1:]...)
			st.SetObj(m.Obj, &n)
		}
		if eq.IsTrue() {
			del(it.st)
			pc.noteWrite(it, m.Obj, o, in)
			return true
		}
		none = append(none, Not(eq))
		if pc.e.feasible(it.st, eq) == Unsat {
			continue
		}
		t := &item{st: it.st.Fork(), fr: it.fr.fork()}
		t.st.Assume(eq)
		del(t.st)
		*pc.work = append(*pc.work, t)
		pc.e.States++
	}
	nf := And(none...)
	if pc.e.feasible(it.st, nf) == Unsat {
		return false
	}
	it.st.Assume(nf)
	return true
}

type mapIter struct {
	entries []MapEntry
	used    []bool
	n       int
	str     *VString
	pos     int
}

func (pc *pathCtx) rangeInit(it *item, x *ssa.Range) bool {
	v := pc.val(it, x.X)
	switch xv := v.(type) {
	case VMap:
		var entries []MapEntry
		if !xv.Nil.IsTrue() {
			if !xv.Nil.IsFalse() {
				unsupported("range over maybe-nil map")
			}
			entries = it.st.Obj(xv.Obj).Entries
		}
		it.fr.locals[x] = VOpaque{Kind: "mapiter", Data: &mapIter{entries: entries, used: make([]bool, len(entries))}}
		return true
	case VString:
		s, ok := xv.Concrete()
		if !ok {
			unsupported("range over symbolic string at %s", siteOf(x))
		}
		_ = s
		it.fr.locals[x] = VOpaque{Kind: "striter", Data: &mapIter{str: &xv}}
		return true
	}
	unsupported("range over %T", v)
	return false
}

func (pc *pathCtx) next(it *item, x *ssa.Next) bool {
	iv := pc.val(it, x.Iter).(VOpaque)
	mi := iv.Data.(*mapIter)
	if x.IsString {
		s, _ := mi.str.Concrete()
		if mi.pos >= len(s) {
			it.fr.locals[x] = VTuple{Elems: []Value{False, I64(0), BVC(0, 32)}}
			return true
		}
		// decode one rune concretely
		r, w := decodeRune(s[mi.pos:])
		ni := *mi
		ni.pos += w
		it.fr.locals[x.Iter] = VOpaque{Kind: "striter", Data: &ni}
		it.fr.locals[x] = VTuple{Elems: []Value{True, I64(int64(mi.pos)), BVC(uint64(r), 32)}}
		return true
	}
	mt := x.Iter.(*ssa.Range).X.Type().Underlying().(*types.Map)
	if mi.n >= len(mi.entries) {
		it.fr.locals[x] = VTuple{Elems: []Value{False, Zero(mt.Key()), Zero(mt.Elem())}}
		return true
	}
	// choose any unused entry (all iteration orders) or the first one
	var choices []int
	for i := range mi.entries {
		if !mi.used[i] {
			choices = append(choices, i)
			if !pc.e.permuteMaps {
				break
			}
		}
	}
	apply := func(t *item, c int) {
		ni := &mapIter{entries: mi.entries, used: append([]bool(nil), mi.used...), n: mi.n + 1}
		ni.used[c] = true
		t.fr.locals[x.Iter] = VOpaque{Kind: "mapiter", Data: ni}
		t.fr.locals[x] = VTuple{Elems: []Value{True, mi.entries[c].Key, mi.entries[c].Val}}
	}
	for _, c := range choices[1:] {
		t := &item{st: it.st.Fork(), fr: it.fr.fork()}
		apply(t, c)
		*pc.work = append(*pc.work, t)
		pc.e.States++
	}
	apply(it, choices[0])
	return true
}

func decodeRune(s string) (rune, int) {
	for i, r := range s {
		_ = i
		w := len(string(r))
		if r == 0xFFFD {
			w = 1
		}
		return r, w
	}
	return 0, 0
}

// ---------- slices ----------

func (pc *pathCtx) noteAlloc(it *item, n *Term, typ types.Type, in ssa.Instruction) {
	if !pc.e.trackAllocs {
		return
	}
	fn := in.Parent()
	if fn == nil || fn.Pkg == nil || !pc.e.ownPkgs[fn.Pkg.Pkg.Path()] {
		return
	}
	if len(fn.Name()) >= 5 && (fn.Name()[:5] == "Verif" || fn.Name()[:5] == "verif") {
		return
	}
	sz := int64(8)
	switch u := typ.Underlying().(type) {
	case *types.Slice:
		sz = pc.e.sizeof(u.Elem())
	case *types.Map:
		sz = pc.e.sizeof(u.Key()) + pc.e.sizeof(u.Elem()) + 8
	}
	it.st.allocs = append(it.st.allocs, BinBV(OMul, toI64(n, types.Typ[types.Int]), I64(sz)))
	pc.e.allocSites = append(pc.e.allocSites, siteOf(in))
}

func (e *Engine) sizeof(t types.Type) int64 {
	sz := types.SizesFor("gc", "amd64").Sizeof(t)
	if sz <= 0 {
		return 8
	}
	return sz
}

func (pc *pathCtx) makeSlice(it *item, x *ssa.MakeSlice) bool {
	ln := toI64(pc.term(it, x.Len), x.Len.Type())
	cp := toI64(pc.term(it, x.Cap), x.Cap.Type())
	st := it.st
	if !pc.panicIf(it, Or(CmpBV(OSLt, ln, I64(0)), CmpBV(OSLt, cp, ln)), "makeslice-len-out-of-range", x) {
		return false
	}
	pc.noteAlloc(it, cp, x.Type(), x)
	elem := x.Type().Underlying().(*types.Slice).Elem()
	if isByte(elem) {
		id := st.Alloc(&Object{Kind: KBytes, Typ: elem, Arr: ConstArr(0), Site: siteOf(x)})
		it.fr.locals[x] = VSlice{Nil: False, Obj: id, Off: I64(0), Len: ln, Cap: cp, Bytes: true}
		return true
	}
	l, ok := pc.concInt(it, ln, x)
	if !ok {
		return false
	}
	var n int64
	if c, isC := st.Conc(cp); isC {
		n = c.Int()
	} else {
		// a symbolic capacity (recorded above as an allocation request) is modelled as
		// cap == len: appends then reallocate, which own code cannot observe
		n = l
	}
	if n > 4096 {
		unsupported("make of %d generic elements at %s", n, siteOf(x))
	}
	es := make([]Value, n)
	for i := range es {
		es[i] = Zero(elem)
	}
	id := st.Alloc(&Object{Kind: KCell, Typ: types.NewArray(elem, n), Val: VArray{Elems: es}, Site: siteOf(x)})
	it.fr.locals[x] = VSlice{Nil: False, Obj: id, Off: I64(0), Len: I64(l), Cap: I64(n)}
	return true
}

func (pc *pathCtx) slice(it *item, x *ssa.Slice) bool {
	v := pc.val(it, x.X)
	get := func(s ssa.Value, def *Term) *Term {
		if s == nil {
			return def
		}
		return toI64(pc.term(it, s), s.Type())
	}
	switch xv := v.(type) {
	case VSlice:
		lo := get(x.Low, I64(0))
		hi := get(x.High, xv.Len)
		mx := get(x.Max, xv.Cap)
		bad := Or(Not(CmpBV(OULe, mx, xv.Cap)), Not(CmpBV(OULe, hi, mx)), Not(CmpBV(OULe, lo, hi)))
		if !pc.panicIf(it, bad, "slice-bounds-out-of-range", x) {
			return false
		}
		if !xv.Bytes {
			// concrete geometry required
			l, ok := pc.concInt(it, lo, x)
			if !ok {
				return false
			}
			h, ok := pc.concInt(it, hi, x)
			if !ok {
				return false
			}
			m, ok := pc.concInt(it, mx, x)
			if !ok {
				return false
			}
			lo, hi, mx = I64(l), I64(h), I64(m)
		}
		it.fr.locals[x] = VSlice{Nil: xv.Nil, Obj: xv.Obj, Off: BinBV(OAdd, xv.Off, lo), Len: BinBV(OSub, hi, lo), Cap: BinBV(OSub, mx, lo), Bytes: xv.Bytes}
		return true
	case VString:
		lo := get(x.Low, I64(0))
		hi := get(x.High, xv.Len)
		bad := Or(Not(CmpBV(OULe, hi, xv.Len)), Not(CmpBV(OULe, lo, hi)))
		if !pc.panicIf(it, bad, "slice-bounds-out-of-range", x) {
			return false
		}
		l, ok := pc.concInt(it, lo, x)
		if !ok {
			return false
		}
		if int(l) > len(xv.B) {
			l = int64(len(xv.B))
		}
		it.fr.locals[x] = VString{Len: BinBV(OSub, hi, lo), B: xv.B[l:]}
		return true
	case VPtr:
		if !pc.panicIf(it, xv.Nil, "nil-deref", x) {
			return false
		}
		at := x.X.Type().Underlying().(*types.Pointer).Elem().Underlying().(*types.Array)
		if len(xv.Path) != 0 {
			unsupported("slicing an embedded array at %s", siteOf(x))
		}
		n := at.Len()
		lo := get(x.Low, I64(0))
		hi := get(x.High, I64(n))
		mx := get(x.Max, I64(n))
		bad := Or(Not(CmpBV(OULe, mx, I64(n))), Not(CmpBV(OULe, hi, mx)), Not(CmpBV(OULe, lo, hi)))
		if !pc.panicIf(it, bad, "slice-bounds-out-of-range", x) {
			return false
		}
		if isByte(at.Elem()) {
			if it.st.Obj(xv.Obj).Kind != KBytes {
				unsupported("slicing a byte array at %s", siteOf(x))
			}
			it.fr.locals[x] = VSlice{Nil: False, Obj: xv.Obj, Off: lo, Len: BinBV(OSub, hi, lo), Cap: BinBV(OSub, mx, lo), Bytes: true}
			return true
		}
		l, ok := pc.concInt(it, lo, x)
		if !ok {
			return false
		}
		h, ok := pc.concInt(it, hi, x)
		if !ok {
			return false
		}
		m, ok := pc.concInt(it, mx, x)
		if !ok {
			return false
		}
		it.fr.locals[x] = VSlice{Nil: False, Obj: xv.Obj, Off: I64(l), Len: I64(h - l), Cap: I64(m - l)}
		return true
	}
	unsupported("slice of %T at %s", v, siteOf(x))
	return false
}

// sliceElems returns the element values of a generic slice (concrete geometry).
func (e *Engine) sliceElems(st *State, s VSlice) []Value {
	if s.Bytes {
		unsupported("sliceElems on bytes")
	}
	n, ok := st.Conc(s.Len)
	if !ok {
		unsupported("generic slice with symbolic length")
	}
	if n.Int() == 0 {
		return nil
	}
	off, _ := st.Conc(s.Off)
	o := st.Obj(s.Obj)
	arr := o.Val.(VArray)
	return arr.Elems[off.Int() : off.Int()+n.Int()]
}

// newSlice allocates a generic slice with the given elements.
func (e *Engine) newSlice(st *State, elem types.Type, es []Value, cap int, site string) VSlice {
	if cap < len(es) {
		cap = len(es)
	}
	all := make([]Value, cap)
	copy(all, es)
	for i := len(es); i < cap; i++ {
		all[i] = Zero(elem)
	}
	id := st.Alloc(&Object{Kind: KCell, Typ: types.NewArray(elem, int64(cap)), Val: VArray{Elems: all}, Site: site})
	return VSlice{Nil: False, Obj: id, Off: I64(0), Len: I64(int64(len(es))), Cap: I64(int64(cap))}
}

// newBytes allocates a byte slice from an array term.
func (e *Engine) newBytes(st *State, arr *Term, ln *Term, site string) VSlice {
	id := st.Alloc(&Object{Kind: KBytes, Typ: types.Typ[types.Uint8], Arr: arr, Site: site})
	return VSlice{Nil: False, Obj: id, Off: I64(0), Len: ln, Cap: ln, Bytes: true}
}

func (pc *pathCtx) appendBuiltin(it *item, x *ssa.Call, args []Value) bool {
	e := pc.e
	st := it.st
	s := args[0].(VSlice)
	elemT := x.Type().Underlying().(*types.Slice).Elem()
	if s.Bytes || isByte(elemT) {
		s.Bytes = true
		// source chunk: []byte or string
		var chunkLen *Term
		var chunkAt func(i int) *Term
		maxChunk := 0
		switch c := args[1].(type) {
		case VSlice:
			chunkLen = c.Len
			if cl, ok := st.Conc(c.Len); ok {
				maxChunk = int(cl.Int())
			} else {
				maxChunk = e.cfg.AppendCap
				over := CmpBV(OSLt, I64(int64(maxChunk)), c.Len)
				if e.feasible(st, over) != Unsat {
					e.noteBound(fmt.Sprintf("append of chunk longer than %d at %s", maxChunk, siteOf(x)))
				}
				st.Assume(Not(over))
			}
			var carr *Term
			if maxChunk > 0 {
				carr = st.Obj(c.Obj).Arr
			}
			chunkAt = func(i int) *Term { return Select(carr, BinBV(OAdd, c.Off, I64(int64(i)))) }
		case VString:
			chunkLen = c.Len
			maxChunk = len(c.B)
			chunkAt = func(i int) *Term { return c.B[i] }
		default:
			unsupported("append chunk %T", args[1])
		}
		// functional append: result always gets a fresh backing array (aliasing of spare
		// capacity between byte slices is not modelled; documented in DESIGN.md)
		var arr *Term
		if s.Obj == 0 || s.Nil.IsTrue() {
			arr = ConstArr(0)
		} else {
			o := st.Obj(s.Obj)
			if off, ok := st.Conc(s.Off); ok && off.Int() == 0 {
				arr = o.Arr
			} else if ln, ok := st.Conc(s.Len); ok && ln.Int() <= 64 {
				arr = ConstArr(0)
				for i := int64(0); i < ln.Int(); i++ {
					arr = Store(arr, I64(i), Select(o.Arr, BinBV(OAdd, s.Off, I64(i))))
				}
			} else {
				unsupported("append to byte slice with symbolic non-zero offset at %s", siteOf(x))
			}
		}
		for i := 0; i < maxChunk; i++ {
			pos := BinBV(OAdd, s.Len, I64(int64(i)))
			inb := CmpBV(OSLt, I64(int64(i)), chunkLen)
			arr = Store(arr, pos, Ite(inb, chunkAt(i), Select(arr, pos)))
		}
		nl := BinBV(OAdd, s.Len, chunkLen)
		r := e.newBytes(st, arr, nl, siteOf(x))
		// appending nothing to a nil slice yields nil
		r.Nil = And(s.Nil, Eq(chunkLen, I64(0)))
		it.fr.locals[x] = r
		return true
	}
	// generic append with faithful in-place semantics
	add := args[1].(VSlice)
	addEs := e.sliceElems(st, add)
	var ln, cp, off int64
	if !s.Nil.IsTrue() || s.Obj != 0 {
		l, ok := pc.concInt(it, s.Len, x)
		if !ok {
			return false
		}
		c, _ := pc.concInt(it, s.Cap, x)
		o, _ := pc.concInt(it, s.Off, x)
		ln, cp, off = l, c, o
	}
	if len(addEs) == 0 {
		it.fr.locals[x] = s
		return true
	}
	need := ln + int64(len(addEs))
	if need <= cp && s.Obj != 0 {
		o := st.Obj(s.Obj)
		n := *o
		arr := o.Val.(VArray)
		es := append([]Value(nil), arr.Elems...)
		for i, v := range addEs {
			es[off+ln+int64(i)] = v
		}
		n.Val = VArray{Elems: es}
		st.SetObj(s.Obj, &n)
		if e.cfg.TrackWrite && o.Epoch < st.epoch {
			st.writes = append(st.writes, WriteRec{Obj: s.Obj, Path: "[append]", Site: siteOf(x)})
		}
		it.fr.locals[x] = VSlice{Nil: False, Obj: s.Obj, Off: I64(off), Len: I64(need), Cap: I64(cp)}
		return true
	}
	var old []Value
	if ln > 0 {
		old = e.sliceElems(st, s)
	}
	newCap := cp * 2
	if newCap < need {
		newCap = need
	}
	es := append(append([]Value(nil), old...), addEs...)
	it.fr.locals[x] = e.newSlice(st, elemT, es, int(newCap), siteOf(x))
	return true
}

// ---------- TypeAssert ----------

func (pc *pathCtx) typeAssert(it *item, x *ssa.TypeAssert) bool {
	v := pc.val(it, x.X).(VIface)
	var okc *Term
	var res Value
	if v.Nil.IsTrue() {
		okc = False
		res = Zero(x.AssertedType)
	} else if types.IsInterface(x.AssertedType) {
		impl := types.Implements(v.Dyn, x.AssertedType.Underlying().(*types.Interface))
		if !impl {
			if _, isPtr := v.Dyn.(*types.Pointer); !isPtr {
				impl = false
			}
		}
		okc = And(Not(v.Nil), BoolC(impl))
		res = VIface{Nil: Not(okc), Dyn: v.Dyn, Val: v.Val}
		if !impl {
			res = NilIface()
		}
	} else {
		same := types.Identical(v.Dyn, x.AssertedType)
		okc = And(Not(v.Nil), BoolC(same))
		if same {
			res = v.Val
		} else {
			res = Zero(x.AssertedType)
		}
	}
	if x.CommaOk {
		okc = it.st.Simp(okc)
		if !okc.IsConst() {
			if !types.IsInterface(x.AssertedType) {
				m, ok := mergeVal(okc, res, Zero(x.AssertedType))
				if !ok {
					unsupported("comma-ok type assertion on maybe-nil interface at %s", siteOf(x))
				}
				res = m
			}
		}
		it.fr.locals[x] = VTuple{Elems: []Value{res, okc}}
		return true
	}
	if !pc.panicIf(it, Not(okc), "type-assertion", x) {
		return false
	}
	it.fr.locals[x] = res
	return true
}

// ---------- builtins ----------

func (pc *pathCtx) builtin(it *item, x *ssa.Call, name string, args []Value) bool {
	switch name {
	case "len":
		switch a := args[0].(type) {
		case VString:
			it.fr.locals[x] = a.Len
		case VSlice:
			it.fr.locals[x] = a.Len
		case VMap:
			if a.Nil.IsTrue() {
				it.fr.locals[x] = I64(0)
			} else {
				it.fr.locals[x] = Ite(a.Nil, I64(0), I64(int64(len(it.st.Obj(a.Obj).Entries))))
			}
		case VArray:
			it.fr.locals[x] = I64(int64(len(a.Elems)))
		case VPtr:
			at := x.Call.Args[0].Type().Underlying().(*types.Pointer).Elem().Underlying().(*types.Array)
			it.fr.locals[x] = I64(at.Len())
		default:
			unsupported("len of %T", a)
		}
		return true
	case "cap":
		switch a := args[0].(type) {
		case VSlice:
			it.fr.locals[x] = a.Cap
		default:
			unsupported("cap of %T", a)
		}
		return true
	case "append":
		return pc.appendBuiltin(it, x, args)
	case "delete":
		return pc.mapDelete(it, args[0].(VMap), args[1], x)
	case "print", "println":
		return true
	case "ssa:wrapnilchk":
		p := args[0].(VPtr)
		if !pc.panicIf(it, p.Nil, "nil-deref", x) {
			return false
		}
		p.Nil = False
		it.fr.locals[x] = p
		return true
	case "recover":
		it.fr.locals[x] = NilIface()
		return true
	case "copy":
		dst := args[0].(VSlice)
		if !dst.Bytes {
			unsupported("copy on generic slices at %s", siteOf(x))
		}
		var n *Term
		var at func(i int) *Term
		max := 0
		switch c := args[1].(type) {
		case VSlice:
			n = Ite(CmpBV(OSLt, c.Len, dst.Len), c.Len, dst.Len)
			cl, ok := it.st.Conc(n)
			if !ok {
				unsupported("copy with symbolic length at %s", siteOf(x))
			}
			max = int(cl.Int())
			var carr *Term
			if max > 0 {
				carr = it.st.Obj(c.Obj).Arr
			}
			at = func(i int) *Term { return Select(carr, BinBV(OAdd, c.Off, I64(int64(i)))) }
		case VString:
			n = Ite(CmpBV(OSLt, c.Len, dst.Len), c.Len, dst.Len)
			cl, ok := it.st.Conc(n)
			if !ok {
				unsupported("copy with symbolic length at %s", siteOf(x))
			}
			max = int(cl.Int())
			at = func(i int) *Term { return c.B[i] }
		}
		if max > 0 {
			o := it.st.Obj(dst.Obj)
			no := *o
			for i := 0; i < max; i++ {
				no.Arr = Store(no.Arr, BinBV(OAdd, dst.Off, I64(int64(i))), at(i))
			}
			it.st.SetObj(dst.Obj, &no)
		}
		it.fr.locals[x] = n
		return true
	case "min", "max":
		a, b := args[0].(*Term), args[1].(*Term)
		_, signed, _ := basicWidth(x.Type())
		lt := OULt
		if signed {
			lt = OSLt
		}
		c := CmpBV(lt, a, b)
		if name == "min" {
			it.fr.locals[x] = Ite(c, a, b)
		} else {
			it.fr.locals[x] = Ite(c, b, a)
		}
		return true
	}
	unsupported("builtin %s at %s", name, siteOf(x))
	return false
}
