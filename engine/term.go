package main

// Term layer: hash-consed, constant-folding SMT terms (Bool, BitVec, Array BV64->BV8).

import (
	"encoding/binary"
	"fmt"
	"math/bits"
	"strings"
)

type SortKind uint8

const (
	SBool SortKind = iota
	SBV
	SArr // (Array (_ BitVec 64) (_ BitVec 8))
)

type Sort struct {
	K SortKind
	W int
}

var (
	BoolSort = Sort{SBool, 0}
	ArrSort  = Sort{SArr, 0}
)

func BV(w int) Sort { return Sort{SBV, w} }

func (s Sort) String() string {
	switch s.K {
	case SBool:
		return "Bool"
	case SBV:
		return fmt.Sprintf("(_ BitVec %d)", s.W)
	default:
		return "(Array (_ BitVec 64) (_ BitVec 8))"
	}
}

type Op uint8

const (
	OConst Op = iota
	OVar
	ONot
	OAnd
	OOr
	OIte
	OEq
	OAdd
	OSub
	OMul
	OUDiv
	OURem
	OSDiv
	OSRem
	OBAnd
	OBOr
	OBXor
	OShl
	OLShr
	OAShr
	OULt
	OULe
	OSLt
	OSLe
	OZExt
	OSExt
	OExtract // c = hi<<8|lo
	OConcat
	OSelect
	OStore
	OConstArr
	OBNot
	ONeg
)

var opNames = map[Op]string{
	ONot: "not", OAnd: "and", OOr: "or", OIte: "ite", OEq: "=", OAdd: "bvadd", OSub: "bvsub", OMul: "bvmul",
	OUDiv: "bvudiv", OURem: "bvurem", OSDiv: "bvsdiv", OSRem: "bvsrem", OBAnd: "bvand", OBOr: "bvor", OBXor: "bvxor",
	OShl: "bvshl", OLShr: "bvlshr", OAShr: "bvashr", OULt: "bvult", OULe: "bvule", OSLt: "bvslt", OSLe: "bvsle",
	OConcat: "concat", OSelect: "select", OStore: "store", OBNot: "bvnot", ONeg: "bvneg",
}

type Term struct {
	ID   int
	Op   Op
	S    Sort
	Args []*Term
	C    uint64 // constant value / extract params / ext amount
	Name string // variable name
	sent bool   // definition already sent to solver (per solver generation)
	gen  int
}

type TermStore struct {
	tab   map[string]*Term
	terms []*Term
	vars  map[string]*Term
	notOf map[int]*Term
}

var TS = &TermStore{tab: map[string]*Term{}, vars: map[string]*Term{}, notOf: map[int]*Term{}}

func (ts *TermStore) mk(op Op, s Sort, c uint64, name string, args ...*Term) *Term {
	buf := make([]byte, 0, 24+len(name)+4*len(args))
	buf = append(buf, byte(op), byte(s.K), byte(s.W), byte(s.W>>8))
	buf = binary.LittleEndian.AppendUint64(buf, c)
	buf = append(buf, name...)
	buf = append(buf, 0)
	for _, a := range args {
		buf = binary.LittleEndian.AppendUint32(buf, uint32(a.ID))
	}
	k := string(buf)
	if t, ok := ts.tab[k]; ok {
		return t
	}
	t := &Term{ID: len(ts.terms) + 1, Op: op, S: s, Args: args, C: c, Name: name}
	ts.tab[k] = t
	ts.terms = append(ts.terms, t)
	return t
}

func mask(w int) uint64 {
	if w >= 64 {
		return ^uint64(0)
	}
	return (uint64(1) << uint(w)) - 1
}

func signExt(v uint64, w int) int64 {
	if w >= 64 {
		return int64(v)
	}
	if v&(1<<uint(w-1)) != 0 {
		return int64(v | ^mask(w))
	}
	return int64(v)
}

var (
	True  = TS.mk(OConst, BoolSort, 1, "")
	False = TS.mk(OConst, BoolSort, 0, "")
)

func BoolC(b bool) *Term {
	if b {
		return True
	}
	return False
}

func BVC(v uint64, w int) *Term { return TS.mk(OConst, BV(w), v&mask(w), "") }
func I64(v int64) *Term         { return BVC(uint64(v), 64) }

func (t *Term) IsConst() bool { return t.Op == OConst }
func (t *Term) IsTrue() bool  { return t == True }
func (t *Term) IsFalse() bool { return t == False }
func (t *Term) Int() int64    { return signExt(t.C, t.S.W) }
func (t *Term) Uint() uint64  { return t.C }

func Var(name string, s Sort) *Term {
	if v, ok := TS.vars[name]; ok {
		if v.S != s {
			panic("var sort clash " + name)
		}
		return v
	}
	v := TS.mk(OVar, s, 0, name)
	TS.vars[name] = v
	return v
}

var freshCtr int

func Fresh(prefix string, s Sort) *Term {
	freshCtr++
	return Var(fmt.Sprintf("%s!%d", prefix, freshCtr), s)
}

func Not(a *Term) *Term {
	if a.IsConst() {
		return BoolC(a.C == 0)
	}
	if a.Op == ONot {
		return a.Args[0]
	}
	n := TS.mk(ONot, BoolSort, 0, "", a)
	TS.notOf[a.ID] = n
	return n
}

func And(as ...*Term) *Term {
	var out []*Term
	seen := map[int]bool{}
	for _, a := range as {
		if a.IsFalse() {
			return False
		}
		if a.IsTrue() || seen[a.ID] {
			continue
		}
		if a.Op == OAnd {
			for _, b := range a.Args {
				if !seen[b.ID] {
					seen[b.ID] = true
					out = append(out, b)
				}
			}
			continue
		}
		seen[a.ID] = true
		out = append(out, a)
	}
	for _, a := range out {
		if a.Op == ONot && seen[a.Args[0].ID] {
			return False
		}
	}
	if len(out) == 0 {
		return True
	}
	if len(out) == 1 {
		return out[0]
	}
	// a AND (not a OR b)  ==  a AND b ;  a AND (a OR b) == a
	if !inSimp {
		changed := false
		for i, a := range out {
			if a.Op != OOr {
				continue
			}
			var keep []*Term
			drop := false
			for _, d := range a.Args {
				if seen[d.ID] {
					drop = true // absorbed: a sibling conjunct already implies this disjunction
					break
				}
				if seen[compID(d)] {
					continue // its complement is a sibling conjunct: this disjunct is false
				}
				keep = append(keep, d)
			}
			if drop {
				out[i] = True
				changed = true
			} else if len(keep) != len(a.Args) {
				inSimp = true
				out[i] = Or(keep...)
				inSimp = false
				changed = true
			}
		}
		if changed {
			return And(out...)
		}
	}
	return TS.mk(OAnd, BoolSort, 0, "", out...)
}

var inSimp bool

// compID: the ID of the complement of t if that term exists, else -1
func compID(t *Term) int {
	if t.Op == ONot {
		return t.Args[0].ID
	}
	if n, ok := TS.notOf[t.ID]; ok {
		return n.ID
	}
	return -1
}

func Or(as ...*Term) *Term {
	var out []*Term
	seen := map[int]bool{}
	for _, a := range as {
		if a.IsTrue() {
			return True
		}
		if a.IsFalse() || seen[a.ID] {
			continue
		}
		if a.Op == OOr {
			for _, b := range a.Args {
				if !seen[b.ID] {
					seen[b.ID] = true
					out = append(out, b)
				}
			}
			continue
		}
		seen[a.ID] = true
		out = append(out, a)
	}
	for _, a := range out {
		if a.Op == ONot && seen[a.Args[0].ID] {
			return True
		}
	}
	if len(out) == 0 {
		return False
	}
	if len(out) == 1 {
		return out[0]
	}
	// a OR (not a AND b)  ==  a OR b ;  a OR (a AND b) == a
	if !inSimp {
		changed := false
		for i, a := range out {
			if a.Op != OAnd {
				continue
			}
			var keep []*Term
			drop := false
			for _, c := range a.Args {
				if seen[c.ID] {
					drop = true // absorbed by the sibling disjunct c
					break
				}
				if seen[compID(c)] {
					continue
				}
				keep = append(keep, c)
			}
			if drop {
				out[i] = False
				changed = true
			} else if len(keep) != len(a.Args) {
				inSimp = true
				out[i] = And(keep...)
				inSimp = false
				changed = true
			}
		}
		if changed {
			return Or(out...)
		}
	}
	return TS.mk(OOr, BoolSort, 0, "", out...)
}

func Implies(a, b *Term) *Term { return Or(Not(a), b) }

func Ite(c, a, b *Term) *Term {
	if c.IsTrue() {
		return a
	}
	if c.IsFalse() {
		return b
	}
	if a == b {
		return a
	}
	if a.S != b.S {
		panic(fmt.Sprintf("ite sort mismatch %v %v", a.S, b.S))
	}
	if a.S.K == SBool {
		if a.IsTrue() && b.IsFalse() {
			return c
		}
		if a.IsFalse() && b.IsTrue() {
			return Not(c)
		}
		if a.IsTrue() {
			return Or(c, b)
		}
		if a.IsFalse() {
			return And(Not(c), b)
		}
		if b.IsTrue() {
			return Or(Not(c), a)
		}
		if b.IsFalse() {
			return And(c, a)
		}
	}
	if c.Op == ONot {
		return TS.mk(OIte, a.S, 0, "", c.Args[0], b, a)
	}
	return TS.mk(OIte, a.S, 0, "", c, a, b)
}

func Eq(a, b *Term) *Term {
	if a == b {
		return True
	}
	if a.S != b.S {
		panic(fmt.Sprintf("eq sort mismatch %v %v", a.S, b.S))
	}
	if a.IsConst() && b.IsConst() {
		return BoolC(a.C == b.C)
	}
	if a.S.K == SBool {
		if a.IsConst() {
			a, b = b, a
		}
		if b.IsTrue() {
			return a
		}
		if b.IsFalse() {
			return Not(a)
		}
	}
	// eq(T, k) where T is an ite-tree with constant leaves: push the comparison to the leaves
	if b.IsConst() && a.Op == OIte && iteConstTree(a, 64) > 0 {
		return pushEqConst(a, b)
	}
	if a.IsConst() && b.Op == OIte && iteConstTree(b, 64) > 0 {
		return pushEqConst(b, a)
	}
	if a.ID > b.ID {
		a, b = b, a
	}
	return TS.mk(OEq, BoolSort, 0, "", a, b)
}

func Ne(a, b *Term) *Term { return Not(Eq(a, b)) }

// iteConstTree: number of nodes of t if it is an ite-tree whose leaves are all constants and
// which has at most budget nodes; 0 otherwise
func iteConstTree(t *Term, budget int) int {
	if t.IsConst() {
		return 1
	}
	if t.Op != OIte || budget <= 0 {
		return 0
	}
	l := iteConstTree(t.Args[1], budget-1)
	if l == 0 {
		return 0
	}
	r := iteConstTree(t.Args[2], budget-1-l)
	if r == 0 {
		return 0
	}
	return 1 + l + r
}

func pushEqConst(t, k *Term) *Term {
	if t.IsConst() {
		return BoolC(t.C == k.C)
	}
	return Ite(t.Args[0], pushEqConst(t.Args[1], k), pushEqConst(t.Args[2], k))
}

func binFold(op Op, x, y uint64, w int) (uint64, bool) {
	m := mask(w)
	switch op {
	case OAdd:
		return (x + y) & m, true
	case OSub:
		return (x - y) & m, true
	case OMul:
		return (x * y) & m, true
	case OUDiv:
		if y == 0 {
			return m, true
		}
		return x / y, true
	case OURem:
		if y == 0 {
			return x, true
		}
		return x % y, true
	case OSDiv:
		if y == 0 {
			return 0, false
		}
		sx, sy := signExt(x, w), signExt(y, w)
		if sy == -1 {
			return uint64(-sx) & m, true
		}
		return uint64(sx/sy) & m, true
	case OSRem:
		if y == 0 {
			return 0, false
		}
		sx, sy := signExt(x, w), signExt(y, w)
		if sy == -1 {
			return 0, true
		}
		return uint64(sx%sy) & m, true
	case OBAnd:
		return x & y, true
	case OBOr:
		return x | y, true
	case OBXor:
		return x ^ y, true
	case OShl:
		if y >= uint64(w) {
			return 0, true
		}
		return (x << y) & m, true
	case OLShr:
		if y >= uint64(w) {
			return 0, true
		}
		return x >> y, true
	case OAShr:
		sx := signExt(x, w)
		if y >= uint64(w) {
			y = uint64(w - 1)
		}
		return uint64(sx>>y) & m, true
	}
	return 0, false
}

func BinBV(op Op, a, b *Term) *Term {
	if a.S != b.S || a.S.K != SBV {
		panic(fmt.Sprintf("bv binop sort mismatch %v %v op %d", a.S, b.S, op))
	}
	w := a.S.W
	if a.IsConst() && b.IsConst() {
		if v, ok := binFold(op, a.C, b.C, w); ok {
			return BVC(v, w)
		}
	}
	switch op {
	case OAdd:
		if a.IsConst() && a.C == 0 {
			return b
		}
		if b.IsConst() && b.C == 0 {
			return a
		}
		// (x + c1) + c2
		if b.IsConst() && a.Op == OAdd && a.Args[1].IsConst() {
			return BinBV(OAdd, a.Args[0], BVC(a.Args[1].C+b.C, w))
		}
		if a.IsConst() {
			a, b = b, a
		}
	case OSub:
		if b.IsConst() && b.C == 0 {
			return a
		}
		if a == b {
			return BVC(0, w)
		}
		if b.IsConst() {
			return BinBV(OAdd, a, BVC(-b.C, w))
		}
		// (x + c) - x
		if a.Op == OAdd && a.Args[0] == b {
			return a.Args[1]
		}
	case OMul:
		if a.IsConst() {
			a, b = b, a
		}
		if b.IsConst() && b.C == 1 {
			return a
		}
		if b.IsConst() && b.C == 0 {
			return b
		}
	case OBAnd:
		if a.IsConst() {
			a, b = b, a
		}
		if b.IsConst() && b.C == 0 {
			return b
		}
		if b.IsConst() && b.C == mask(w) {
			return a
		}
		if a == b {
			return a
		}
	case OBOr, OBXor:
		if a.IsConst() {
			a, b = b, a
		}
		if b.IsConst() && b.C == 0 {
			return a
		}
	case OShl, OLShr, OAShr:
		if b.IsConst() && b.C == 0 {
			return a
		}
	}
	return TS.mk(op, a.S, 0, "", a, b)
}

func CmpBV(op Op, a, b *Term) *Term {
	if a.S != b.S || a.S.K != SBV {
		panic(fmt.Sprintf("bv cmp sort mismatch %v %v", a.S, b.S))
	}
	w := a.S.W
	if a.IsConst() && b.IsConst() {
		switch op {
		case OULt:
			return BoolC(a.C < b.C)
		case OULe:
			return BoolC(a.C <= b.C)
		case OSLt:
			return BoolC(signExt(a.C, w) < signExt(b.C, w))
		case OSLe:
			return BoolC(signExt(a.C, w) <= signExt(b.C, w))
		}
	}
	if a == b {
		return BoolC(op == OULe || op == OSLe)
	}
	if op == OULt && b.IsConst() && b.C == 0 {
		return False
	}
	if op == OULe && a.IsConst() && a.C == 0 {
		return True
	}
	if op == OULe && b.IsConst() && b.C == mask(w) {
		return True
	}
	// comparisons of zero-extended narrow values against constants out of range
	if a.Op == OZExt && b.IsConst() {
		iw := a.Args[0].S.W
		if b.C > mask(iw) && (op == OULt || op == OULe) {
			return True
		}
		if (op == OSLt || op == OSLe) && signExt(b.C, w) > int64(mask(iw)) && iw < 63 {
			return True
		}
		if (op == OSLt || op == OSLe) && signExt(b.C, w) < 0 {
			return False
		}
	}
	if b.Op == OZExt && a.IsConst() {
		iw := b.Args[0].S.W
		if (op == OSLt || op == OSLe) && signExt(a.C, w) < 0 {
			return True
		}
		if (op == OSLt) && signExt(a.C, w) >= int64(mask(iw)) && iw < 63 {
			return False
		}
	}
	// normal form: only strict comparisons are built (a <= b  ==  not (b < a)), so that the
	// literal knowledge of a path recognises both spellings of the same test
	switch op {
	case OULe:
		return Not(TS.mk(OULt, BoolSort, 0, "", b, a))
	case OSLe:
		return Not(TS.mk(OSLt, BoolSort, 0, "", b, a))
	}
	return TS.mk(op, BoolSort, 0, "", a, b)
}

func ZExt(a *Term, w int) *Term {
	if a.S.W == w {
		return a
	}
	if a.S.W > w {
		return Extract(a, w-1, 0)
	}
	if a.IsConst() {
		return BVC(a.C, w)
	}
	if a.Op == OZExt {
		return ZExt(a.Args[0], w)
	}
	return TS.mk(OZExt, BV(w), uint64(w-a.S.W), "", a)
}

func SExt(a *Term, w int) *Term {
	if a.S.W == w {
		return a
	}
	if a.S.W > w {
		return Extract(a, w-1, 0)
	}
	if a.IsConst() {
		return BVC(uint64(signExt(a.C, a.S.W)), w)
	}
	return TS.mk(OSExt, BV(w), uint64(w-a.S.W), "", a)
}

func Extract(a *Term, hi, lo int) *Term {
	if lo == 0 && hi == a.S.W-1 {
		return a
	}
	w := hi - lo + 1
	if a.IsConst() {
		return BVC(a.C>>uint(lo), w)
	}
	if (a.Op == OZExt || a.Op == OSExt) && hi < a.Args[0].S.W {
		return Extract(a.Args[0], hi, lo)
	}
	if a.Op == OZExt && lo >= a.Args[0].S.W {
		return BVC(0, w)
	}
	return TS.mk(OExtract, BV(w), uint64(hi)<<8|uint64(lo), "", a)
}

func Concat(a, b *Term) *Term {
	if a.IsConst() && b.IsConst() && a.S.W+b.S.W <= 64 {
		return BVC(a.C<<uint(b.S.W)|b.C, a.S.W+b.S.W)
	}
	if a.IsConst() && a.C == 0 {
		return ZExt(b, a.S.W+b.S.W)
	}
	return TS.mk(OConcat, BV(a.S.W+b.S.W), 0, "", a, b)
}

func BNot(a *Term) *Term {
	if a.IsConst() {
		return BVC(^a.C, a.S.W)
	}
	return TS.mk(OBNot, a.S, 0, "", a)
}

func Neg(a *Term) *Term {
	if a.IsConst() {
		return BVC(-a.C, a.S.W)
	}
	return TS.mk(ONeg, a.S, 0, "", a)
}

func ConstArr(v uint8) *Term { return TS.mk(OConstArr, ArrSort, uint64(v), "") }

func Select(arr, idx *Term) *Term {
	if idx.S != BV(64) {
		panic("select index sort")
	}
	// resolve through stores with constant indices
	cur := arr
	for cur.Op == OStore {
		si := cur.Args[1]
		if si == idx {
			return cur.Args[2]
		}
		if si.IsConst() && idx.IsConst() {
			cur = cur.Args[0]
			continue
		}
		break
	}
	if cur.Op == OConstArr {
		return BVC(cur.C, 8)
	}
	if cur.Op == OIte && idx.IsConst() {
		return Ite(cur.Args[0], Select(cur.Args[1], idx), Select(cur.Args[2], idx))
	}
	return TS.mk(OSelect, BV(8), 0, "", cur, idx)
}

func Store(arr, idx, v *Term) *Term {
	if arr.Op == OStore && arr.Args[1] == idx {
		arr = arr.Args[0]
	}
	return TS.mk(OStore, ArrSort, 0, "", arr, idx, v)
}

// ---------- printing ----------

func (t *Term) ref() string {
	switch t.Op {
	case OConst:
		if t.S.K == SBool {
			if t.C != 0 {
				return "true"
			}
			return "false"
		}
		if t.S.W%4 == 0 {
			return fmt.Sprintf("#x%0*x", t.S.W/4, t.C)
		}
		return fmt.Sprintf("#b%0*b", t.S.W, t.C)
	case OVar:
		return "|" + t.Name + "|"
	}
	return fmt.Sprintf("t%d", t.ID)
}

func (t *Term) body() string {
	var sb strings.Builder
	switch t.Op {
	case OZExt:
		fmt.Fprintf(&sb, "((_ zero_extend %d) %s)", t.C, t.Args[0].ref())
	case OSExt:
		fmt.Fprintf(&sb, "((_ sign_extend %d) %s)", t.C, t.Args[0].ref())
	case OExtract:
		fmt.Fprintf(&sb, "((_ extract %d %d) %s)", t.C>>8, t.C&0xff, t.Args[0].ref())
	case OConstArr:
		fmt.Fprintf(&sb, "((as const (Array (_ BitVec 64) (_ BitVec 8))) #x%02x)", t.C)
	default:
		sb.WriteString("(")
		sb.WriteString(opNames[t.Op])
		for _, a := range t.Args {
			sb.WriteString(" ")
			sb.WriteString(a.ref())
		}
		sb.WriteString(")")
	}
	return sb.String()
}

// String renders a small human-readable form (for evidence samples / debugging).
func (t *Term) String() string {
	if t.Op == OConst || t.Op == OVar {
		return t.ref()
	}
	return t.render(3)
}

func (t *Term) render(d int) string {
	if t.Op == OConst || t.Op == OVar {
		return t.ref()
	}
	if d == 0 {
		return "…"
	}
	var sb strings.Builder
	sb.WriteString("(")
	switch t.Op {
	case OZExt:
		sb.WriteString("zext")
	case OSExt:
		sb.WriteString("sext")
	case OExtract:
		fmt.Fprintf(&sb, "extract[%d:%d]", t.C>>8, t.C&0xff)
	case OConstArr:
		sb.WriteString("constarr")
	default:
		sb.WriteString(opNames[t.Op])
	}
	for _, a := range t.Args {
		sb.WriteString(" ")
		sb.WriteString(a.render(d - 1))
	}
	sb.WriteString(")")
	return sb.String()
}

// vars collects the free variables of t.
func collectVars(t *Term, seen map[int]bool, out map[string]*Term) {
	if seen[t.ID] {
		return
	}
	seen[t.ID] = true
	if t.Op == OVar {
		out[t.Name] = t
	}
	for _, a := range t.Args {
		collectVars(a, seen, out)
	}
}

func log2ceil(n int) int { return bits.Len(uint(n)) }
