package main

// Symbolic values, heap objects, states and shape-partitioned merging.

import (
	"fmt"
	"os"
	"strconv"
	"go/types"
	"sort"
	"strings"

	"golang.org/x/tools/go/ssa"
)

type ObjID int

type Value interface{}

// VPtr: nil under condition Nil, otherwise pointing at Obj/Path (or byte index BIdx of a byte array).
type VPtr struct {
	Nil  *Term
	Obj  ObjID
	Path []int
	BIdx *Term
}

type VIface struct {
	Nil *Term
	Dyn types.Type
	Val Value
}

type VStruct struct{ Fields []Value }
type VArray struct{ Elems []Value }

type VSlice struct {
	Nil           *Term
	Obj           ObjID
	Off, Len, Cap *Term
	Bytes         bool
}

// VString: Len <= len(B) always (asserted when created symbolically).
type VString struct {
	Len *Term
	B   []*Term
}

type VMap struct {
	Nil *Term
	Obj ObjID
}

type VFunc struct {
	Nil      *Term
	Fn       *ssa.Function
	Bindings []Value
	Builtin  string
}

type VTuple struct{ Elems []Value }

// VOpaque: library objects modelled by contract (regexp, reflect types/values, codecs, keys…)
type VOpaque struct {
	Kind string
	Data interface{}
}

// VErr is the heap payload of a modelled error object.
type VErr struct {
	Wraps []Value // VIface error values
	Msg   string
}

type ObjKind uint8

const (
	KCell ObjKind = iota
	KArr
	KBytes
	KMap
)

type MapEntry struct {
	Key Value
	Val Value
}

type Object struct {
	Kind    ObjKind
	Typ     types.Type
	Val     Value
	Elems   []Value
	Arr     *Term
	Entries []MapEntry
	Epoch   int
	Seq     ObjID // allocation sequence number on its path (for collecting callee temporaries)
	Site    string
	Input   bool // byte array that is a caller-supplied input buffer (ghost)
}

type WriteRec struct {
	Obj  ObjID
	Path string
	Site string
}

type State struct {
	pc      []*Term
	known   map[int]bool
	eqs     map[int]*Term
	heap    map[ObjID]*Object
	next    ObjID
	globals map[*ssa.Global]ObjID
	epoch   int
	ctx     []string       // call chain of the activation being executed: "callsite:loop iterations of the caller at the call"
	cur     string         // loop-iteration signature of the activation being executed
	occ     map[string]int // allocations seen so far per (call chain, site)
	writes  []WriteRec
	allocs  []*Term // sizes requested by make() in own code since last reset (ghost)
	steps   int
}

func NewState() *State {
	return &State{known: map[int]bool{}, eqs: map[int]*Term{}, heap: map[ObjID]*Object{}, next: 1, globals: map[*ssa.Global]ObjID{}, occ: map[string]int{}}
}

func (s *State) Fork() *State {
	n := &State{pc: append([]*Term(nil), s.pc...), known: make(map[int]bool, len(s.known)), eqs: make(map[int]*Term, len(s.eqs)),
		heap: make(map[ObjID]*Object, len(s.heap)), next: s.next, globals: s.globals, epoch: s.epoch, steps: s.steps}
	for k, v := range s.known {
		n.known[k] = v
	}
	for k, v := range s.eqs {
		n.eqs[k] = v
	}
	for k, v := range s.heap {
		n.heap[k] = v
	}
	n.writes = append([]WriteRec(nil), s.writes...)
	n.allocs = append([]*Term(nil), s.allocs...)
	n.ctx = append([]string(nil), s.ctx...)
	n.cur = s.cur
	n.occ = make(map[string]int, len(s.occ))
	for k, v := range s.occ {
		n.occ[k] = v
	}
	return n
}

func (s *State) PC() *Term { return And(s.pc...) }

// Assume adds c to the path condition and records literal knowledge.
func (s *State) Assume(c *Term) {
	c = s.Simp(c)
	if c.IsTrue() {
		return
	}
	s.pc = append(s.pc, c)
	s.learn(c, true)
}

func (s *State) learn(c *Term, val bool) {
	switch {
	case c.Op == ONot:
		s.learn(c.Args[0], !val)
	case c.Op == OAnd && val:
		for _, a := range c.Args {
			s.learn(a, true)
		}
	case c.Op == OOr && !val:
		for _, a := range c.Args {
			s.learn(a, false)
		}
	default:
		s.known[c.ID] = val
		if val && c.Op == OEq {
			if c.Args[1].IsConst() {
				s.eqs[c.Args[0].ID] = c.Args[1]
			} else if c.Args[0].IsConst() {
				s.eqs[c.Args[1].ID] = c.Args[0]
			}
		}
	}
}

// Simp simplifies a boolean term under the literal knowledge of the state (DAG-memoised).
func (s *State) Simp(c *Term) *Term {
	if c.IsConst() {
		return c
	}
	if len(s.known) == 0 {
		return c
	}
	return s.simp(c, map[int]*Term{})
}

func (s *State) simp(c *Term, memo map[int]*Term) *Term {
	if c.IsConst() {
		return c
	}
	if v, ok := s.known[c.ID]; ok {
		return BoolC(v)
	}
	switch c.Op {
	case ONot, OAnd, OOr:
	default:
		return c
	}
	if r, ok := memo[c.ID]; ok {
		return r
	}
	var r *Term
	switch c.Op {
	case ONot:
		r = Not(s.simp(c.Args[0], memo))
	case OAnd:
		out := make([]*Term, len(c.Args))
		for i, a := range c.Args {
			out[i] = s.simp(a, memo)
		}
		r = And(out...)
	case OOr:
		out := make([]*Term, len(c.Args))
		for i, a := range c.Args {
			out[i] = s.simp(a, memo)
		}
		r = Or(out...)
	}
	memo[c.ID] = r
	return r
}

// Conc returns the constant a term is known to equal, if any.
func (s *State) Conc(t *Term) (*Term, bool) {
	if t.IsConst() {
		return t, true
	}
	if c, ok := s.eqs[t.ID]; ok {
		return c, true
	}
	return nil, false
}

func (s *State) concOr(t *Term) *Term {
	if t == nil || t.IsConst() {
		return t
	}
	if c, ok := s.eqs[t.ID]; ok {
		return c
	}
	return t
}

// objIntern gives every (call chain, allocation site, occurrence) its own object identity,
// the SAME on every path: paths that skipped some other allocation still agree on the
// identities of the objects they both created, so they can be merged at join points.
var objIntern = map[string]ObjID{}

func (s *State) Alloc(o *Object) ObjID {
	var sb strings.Builder
	for _, c := range s.ctx {
		sb.WriteString(c)
		sb.WriteByte('/')
	}
	sb.WriteString(s.cur)
	sb.WriteByte('|')
	sb.WriteString(o.Site)
	key := sb.String()
	n := s.occ[key]
	s.occ[key] = n + 1
	key += "#" + strconv.Itoa(n)
	id, ok := objIntern[key]
	if !ok {
		id = ObjID(len(objIntern) + 1)
		objIntern[key] = id
	}
	o.Seq = s.next
	s.next++
	o.Epoch = s.epoch
	s.heap[id] = o
	return id
}

func (s *State) Obj(id ObjID) *Object {
	o := s.heap[id]
	if o == nil {
		panic(Unsupported{fmt.Sprintf("dangling object %d", id)})
	}
	return o
}

func (s *State) SetObj(id ObjID, o *Object) { s.heap[id] = o }

// ---------- value helpers ----------

type Unsupported struct{ Msg string }

func (u Unsupported) Error() string { return "unsupported: " + u.Msg }

func unsupported(format string, a ...interface{}) {
	panic(Unsupported{fmt.Sprintf(format, a...)})
}

func NilPtr() VPtr     { return VPtr{Nil: True} }
func NilIface() VIface { return VIface{Nil: True} }
func NilSlice(bytes bool) VSlice {
	return VSlice{Nil: True, Off: I64(0), Len: I64(0), Cap: I64(0), Bytes: bytes}
}

func ConstString(s string) VString {
	b := make([]*Term, len(s))
	for i := 0; i < len(s); i++ {
		b[i] = BVC(uint64(s[i]), 8)
	}
	return VString{Len: I64(int64(len(s))), B: b}
}

func (v VString) Concrete() (string, bool) {
	if !v.Len.IsConst() {
		return "", false
	}
	n := int(v.Len.Int())
	if n > len(v.B) {
		return "", false
	}
	bs := make([]byte, n)
	for i := 0; i < n; i++ {
		if !v.B[i].IsConst() {
			return "", false
		}
		bs[i] = byte(v.B[i].C)
	}
	return string(bs), true
}

func StringEq(a, b VString) *Term {
	conds := []*Term{Eq(a.Len, b.Len)}
	n := len(a.B)
	if len(b.B) < n {
		n = len(b.B)
	}
	for i := 0; i < n; i++ {
		if a.B[i] == b.B[i] {
			continue
		}
		conds = append(conds, Or(CmpBV(OSLe, a.Len, I64(int64(i))), Eq(a.B[i], b.B[i])))
	}
	// lengths beyond the shorter capacity cannot be equal-with-content; require len <= n
	if len(a.B) != len(b.B) {
		conds = append(conds, CmpBV(OSLe, a.Len, I64(int64(n))))
	}
	return And(conds...)
}

func basicWidth(t types.Type) (w int, signed bool, ok bool) {
	b, isB := t.Underlying().(*types.Basic)
	if !isB {
		return 0, false, false
	}
	switch b.Kind() {
	case types.Int8:
		return 8, true, true
	case types.Int16:
		return 16, true, true
	case types.Int32:
		return 32, true, true
	case types.Int64, types.Int:
		return 64, true, true
	case types.Uint8:
		return 8, false, true
	case types.Uint16:
		return 16, false, true
	case types.Uint32:
		return 32, false, true
	case types.Uint64, types.Uint, types.Uintptr:
		return 64, false, true
	case types.UntypedInt, types.UntypedRune:
		return 64, true, true
	}
	return 0, false, false
}

func isByteSlice(t types.Type) bool {
	s, ok := t.Underlying().(*types.Slice)
	if !ok {
		return false
	}
	b, ok := s.Elem().Underlying().(*types.Basic)
	return ok && b.Kind() == types.Uint8
}

func isByte(t types.Type) bool {
	b, ok := t.Underlying().(*types.Basic)
	return ok && b.Kind() == types.Uint8
}

// opaqueTypes lists named library types that are modelled as VOpaque.
func opaqueKind(t types.Type) string {
	n, ok := t.(*types.Named)
	if !ok {
		return ""
	}
	if n.Obj().Pkg() == nil {
		return ""
	}
	full := n.Obj().Pkg().Path() + "." + n.Obj().Name()
	switch full {
	case "reflect.Value":
		return "rvalue"
	case "regexp.Regexp":
		return "regexp"
	case "bytes.Buffer", "bytes.Reader", "encoding/json.Decoder":
		return full
	}
	return ""
}

// Zero returns the zero value of a type.
func Zero(t types.Type) Value {
	if k := opaqueKind(t); k != "" {
		return VOpaque{Kind: k}
	}
	switch u := t.Underlying().(type) {
	case *types.Basic:
		switch {
		case u.Info()&types.IsBoolean != 0:
			return False
		case u.Info()&types.IsString != 0:
			return ConstString("")
		case u.Info()&types.IsInteger != 0:
			w, _, _ := basicWidth(u)
			return BVC(0, w)
		case u.Kind() == types.UnsafePointer:
			return NilPtr()
		case u.Kind() == types.UntypedNil:
			return NilPtr()
		case u.Info()&types.IsFloat != 0:
			return VOpaque{Kind: "float", Data: 0.0}
		}
	case *types.Pointer:
		return NilPtr()
	case *types.Interface:
		return NilIface()
	case *types.Slice:
		return NilSlice(isByte(u.Elem()))
	case *types.Map:
		return VMap{Nil: True}
	case *types.Signature:
		return VFunc{Nil: True}
	case *types.Chan:
		return NilPtr()
	case *types.Struct:
		fs := make([]Value, u.NumFields())
		for i := range fs {
			fs[i] = Zero(u.Field(i).Type())
		}
		return VStruct{Fields: fs}
	case *types.Array:
		es := make([]Value, int(u.Len()))
		for i := range es {
			es[i] = Zero(u.Elem())
		}
		return VArray{Elems: es}
	case *types.Tuple:
		es := make([]Value, u.Len())
		for i := range es {
			es[i] = Zero(u.At(i).Type())
		}
		return VTuple{Elems: es}
	}
	unsupported("zero value of %s", t)
	return nil
}

// getPath / setPath navigate nested struct/array values.
func getPath(v Value, path []int) Value {
	for _, i := range path {
		switch vv := v.(type) {
		case VStruct:
			v = vv.Fields[i]
		case VArray:
			v = vv.Elems[i]
		default:
			unsupported("path into %T", v)
		}
	}
	return v
}

func setPath(v Value, path []int, nv Value) Value {
	if len(path) == 0 {
		return nv
	}
	switch vv := v.(type) {
	case VStruct:
		fs := append([]Value(nil), vv.Fields...)
		fs[path[0]] = setPath(fs[path[0]], path[1:], nv)
		return VStruct{Fields: fs}
	case VArray:
		es := append([]Value(nil), vv.Elems...)
		es[path[0]] = setPath(es[path[0]], path[1:], nv)
		return VArray{Elems: es}
	}
	unsupported("set path into %T", v)
	return nil
}

func pathStr(p []int) string {
	var sb strings.Builder
	for _, i := range p {
		fmt.Fprintf(&sb, ".%d", i)
	}
	return sb.String()
}

// ---------- merging ----------

// mergeVal merges a (under g) with b (otherwise). ok=false when shapes differ.
func mergeVal(g *Term, a, b Value) (Value, bool) {
	switch av := a.(type) {
	case nil:
		if b == nil {
			return nil, true
		}
		return nil, false
	case *Term:
		bv, ok := b.(*Term)
		if !ok || av.S != bv.S {
			return nil, false
		}
		return Ite(g, av, bv), true
	case VPtr:
		bv, ok := b.(VPtr)
		if !ok {
			return nil, false
		}
		if av.Nil.IsTrue() && bv.Nil.IsTrue() {
			return av, true
		}
		if av.Nil.IsTrue() {
			r := bv
			r.Nil = Ite(g, True, bv.Nil)
			return r, true
		}
		if bv.Nil.IsTrue() {
			r := av
			r.Nil = Ite(g, av.Nil, True)
			return r, true
		}
		if av.Obj != bv.Obj || len(av.Path) != len(bv.Path) || (av.BIdx == nil) != (bv.BIdx == nil) {
			return nil, false
		}
		for i := range av.Path {
			if av.Path[i] != bv.Path[i] {
				return nil, false
			}
		}
		r := VPtr{Nil: Ite(g, av.Nil, bv.Nil), Obj: av.Obj, Path: av.Path}
		if av.BIdx != nil {
			r.BIdx = Ite(g, av.BIdx, bv.BIdx)
		}
		return r, true
	case VIface:
		bv, ok := b.(VIface)
		if !ok {
			return nil, false
		}
		if av.Nil.IsTrue() && bv.Nil.IsTrue() {
			return av, true
		}
		if av.Nil.IsTrue() {
			r := bv
			r.Nil = Ite(g, True, bv.Nil)
			return r, true
		}
		if bv.Nil.IsTrue() {
			r := av
			r.Nil = Ite(g, av.Nil, True)
			return r, true
		}
		if !types.Identical(av.Dyn, bv.Dyn) {
			return nil, false
		}
		v, ok := mergeVal(g, av.Val, bv.Val)
		if !ok {
			return nil, false
		}
		return VIface{Nil: Ite(g, av.Nil, bv.Nil), Dyn: av.Dyn, Val: v}, true
	case VStruct:
		bv, ok := b.(VStruct)
		if !ok || len(av.Fields) != len(bv.Fields) {
			return nil, false
		}
		fs := make([]Value, len(av.Fields))
		for i := range fs {
			v, ok := mergeVal(g, av.Fields[i], bv.Fields[i])
			if !ok {
				return nil, false
			}
			fs[i] = v
		}
		return VStruct{Fields: fs}, true
	case VArray:
		bv, ok := b.(VArray)
		if !ok || len(av.Elems) != len(bv.Elems) {
			return nil, false
		}
		es := make([]Value, len(av.Elems))
		for i := range es {
			v, ok := mergeVal(g, av.Elems[i], bv.Elems[i])
			if !ok {
				return nil, false
			}
			es[i] = v
		}
		return VArray{Elems: es}, true
	case VTuple:
		bv, ok := b.(VTuple)
		if !ok || len(av.Elems) != len(bv.Elems) {
			return nil, false
		}
		es := make([]Value, len(av.Elems))
		for i := range es {
			v, ok := mergeVal(g, av.Elems[i], bv.Elems[i])
			if !ok {
				return nil, false
			}
			es[i] = v
		}
		return VTuple{Elems: es}, true
	case VSlice:
		bv, ok := b.(VSlice)
		if !ok || av.Bytes != bv.Bytes {
			return nil, false
		}
		if keepGeometry && av.Bytes && (av.Off != bv.Off || av.Len != bv.Len) {
			// raw-buffer harnesses: windows of different geometry stay on separate paths
			// (merging would turn every later offset and length into an ite-term)
			return nil, false
		}
		if !av.Bytes && (av.Obj != bv.Obj || av.Off != bv.Off || av.Len != bv.Len || av.Cap != bv.Cap) {
			// generic slices keep concrete geometry on every path: never merged unless identical
			return nil, false
		}
		if av.Obj != bv.Obj {
			// a nil/empty slice has no backing object: allow wildcard
			if av.Obj == 0 {
				r := bv
				r.Nil, r.Off, r.Len, r.Cap = Ite(g, av.Nil, bv.Nil), Ite(g, av.Off, bv.Off), Ite(g, av.Len, bv.Len), Ite(g, av.Cap, bv.Cap)
				return r, true
			}
			if bv.Obj == 0 {
				r := av
				r.Nil, r.Off, r.Len, r.Cap = Ite(g, av.Nil, bv.Nil), Ite(g, av.Off, bv.Off), Ite(g, av.Len, bv.Len), Ite(g, av.Cap, bv.Cap)
				return r, true
			}
			return nil, false
		}
		if !av.Bytes {
			// generic slices need concrete geometry
			if av.Off != bv.Off || av.Len != bv.Len || av.Cap != bv.Cap {
				return nil, false
			}
		} else if keepGeometry && (av.Off != bv.Off || av.Len != bv.Len) && av.Off.IsConst() && bv.Off.IsConst() && av.Len.IsConst() && bv.Len.IsConst() {
			// raw-buffer harnesses: two windows with different CONCRETE geometry stay on
			// separate paths (merging would turn every later offset into an ite-term)
			return nil, false
		}
		return VSlice{Nil: Ite(g, av.Nil, bv.Nil), Obj: av.Obj, Off: Ite(g, av.Off, bv.Off), Len: Ite(g, av.Len, bv.Len), Cap: Ite(g, av.Cap, bv.Cap), Bytes: av.Bytes}, true
	case VString:
		bv, ok := b.(VString)
		if !ok {
			return nil, false
		}
		n := len(av.B)
		if len(bv.B) > n {
			n = len(bv.B)
		}
		bs := make([]*Term, n)
		z := BVC(0, 8)
		for i := 0; i < n; i++ {
			x, y := z, z
			if i < len(av.B) {
				x = av.B[i]
			}
			if i < len(bv.B) {
				y = bv.B[i]
			}
			bs[i] = Ite(g, x, y)
		}
		return VString{Len: Ite(g, av.Len, bv.Len), B: bs}, true
	case VMap:
		bv, ok := b.(VMap)
		if !ok {
			return nil, false
		}
		if av.Obj != bv.Obj {
			if av.Nil.IsTrue() {
				return VMap{Nil: Ite(g, True, bv.Nil), Obj: bv.Obj}, true
			}
			if bv.Nil.IsTrue() {
				return VMap{Nil: Ite(g, av.Nil, True), Obj: av.Obj}, true
			}
			return nil, false
		}
		return VMap{Nil: Ite(g, av.Nil, bv.Nil), Obj: av.Obj}, true
	case VFunc:
		bv, ok := b.(VFunc)
		if !ok || av.Fn != bv.Fn || av.Builtin != bv.Builtin || len(av.Bindings) != len(bv.Bindings) {
			return nil, false
		}
		if len(av.Bindings) > 0 {
			return nil, false
		}
		nilA, nilB := av.Nil, bv.Nil
		if nilA == nil {
			nilA = False
		}
		if nilB == nil {
			nilB = False
		}
		return VFunc{Nil: Ite(g, nilA, nilB), Fn: av.Fn, Builtin: av.Builtin}, true
	case VOpaque:
		bv, ok := b.(VOpaque)
		if !ok || av.Kind != bv.Kind {
			return nil, false
		}
		if m, ok := av.Data.(Mergeable); ok {
			d, ok := m.MergeWith(g, bv.Data)
			if !ok {
				return nil, false
			}
			return VOpaque{Kind: av.Kind, Data: d}, true
		}
		if !opaqueEqual(av.Data, bv.Data) {
			return nil, false
		}
		return av, true
	case VErr:
		bv, ok := b.(VErr)
		if !ok || len(av.Wraps) != len(bv.Wraps) {
			return nil, false
		}
		ws := make([]Value, len(av.Wraps))
		for i := range ws {
			v, ok := mergeVal(g, av.Wraps[i], bv.Wraps[i])
			if !ok {
				return nil, false
			}
			ws[i] = v
		}
		return VErr{Wraps: ws, Msg: av.Msg}, true
	}
	return nil, false
}

// canMerge mirrors mergeVal's shape conditions without building any term (cheap pre-check).
func canMerge(a, b Value) bool {
	switch av := a.(type) {
	case nil:
		return b == nil
	case *Term:
		bv, ok := b.(*Term)
		return ok && av.S == bv.S
	case VPtr:
		bv, ok := b.(VPtr)
		if !ok {
			return false
		}
		if av.Nil.IsTrue() || bv.Nil.IsTrue() {
			return true
		}
		if av.Obj != bv.Obj || len(av.Path) != len(bv.Path) || (av.BIdx == nil) != (bv.BIdx == nil) {
			return false
		}
		for i := range av.Path {
			if av.Path[i] != bv.Path[i] {
				return false
			}
		}
		return true
	case VIface:
		bv, ok := b.(VIface)
		if !ok {
			return false
		}
		if av.Nil.IsTrue() || bv.Nil.IsTrue() {
			return true
		}
		return types.Identical(av.Dyn, bv.Dyn) && canMerge(av.Val, bv.Val)
	case VStruct:
		bv, ok := b.(VStruct)
		if !ok || len(av.Fields) != len(bv.Fields) {
			return false
		}
		for i := range av.Fields {
			if !canMerge(av.Fields[i], bv.Fields[i]) {
				return false
			}
		}
		return true
	case VArray:
		bv, ok := b.(VArray)
		if !ok || len(av.Elems) != len(bv.Elems) {
			return false
		}
		for i := range av.Elems {
			if !canMerge(av.Elems[i], bv.Elems[i]) {
				return false
			}
		}
		return true
	case VTuple:
		bv, ok := b.(VTuple)
		if !ok || len(av.Elems) != len(bv.Elems) {
			return false
		}
		for i := range av.Elems {
			if !canMerge(av.Elems[i], bv.Elems[i]) {
				return false
			}
		}
		return true
	case VSlice:
		bv, ok := b.(VSlice)
		if !ok || av.Bytes != bv.Bytes {
			return false
		}
		if !av.Bytes {
			return av.Obj == bv.Obj && av.Off == bv.Off && av.Len == bv.Len && av.Cap == bv.Cap
		}
		if keepGeometry && (av.Off != bv.Off || av.Len != bv.Len) {
			return false
		}
		return av.Obj == bv.Obj || av.Obj == 0 || bv.Obj == 0
	case VString:
		_, ok := b.(VString)
		return ok
	case VMap:
		bv, ok := b.(VMap)
		return ok && (av.Obj == bv.Obj || av.Nil.IsTrue() || bv.Nil.IsTrue())
	case VFunc:
		bv, ok := b.(VFunc)
		return ok && av.Fn == bv.Fn && av.Builtin == bv.Builtin && len(av.Bindings) == 0 && len(bv.Bindings) == 0
	}
	// opaque payloads and error records: let mergeVal decide
	return true
}

// Mergeable is implemented by opaque payloads that carry symbolic data.
type Mergeable interface {
	MergeWith(g *Term, other interface{}) (interface{}, bool)
}

func opaqueEqual(a, b interface{}) (eq bool) {
	defer func() {
		if recover() != nil {
			eq = false
		}
	}()
	return a == b
}

func mergeObj(g *Term, a, b *Object) (*Object, bool) {
	if a == b {
		return a, true
	}
	if a.Kind != b.Kind || !types.Identical(a.Typ, b.Typ) {
		return nil, false
	}
	r := &Object{Kind: a.Kind, Typ: a.Typ, Epoch: a.Epoch, Site: a.Site, Input: a.Input}
	switch a.Kind {
	case KCell:
		v, ok := mergeVal(g, a.Val, b.Val)
		if !ok {
			return nil, false
		}
		r.Val = v
	case KArr:
		if len(a.Elems) != len(b.Elems) {
			return nil, false
		}
		r.Elems = make([]Value, len(a.Elems))
		for i := range a.Elems {
			v, ok := mergeVal(g, a.Elems[i], b.Elems[i])
			if !ok {
				return nil, false
			}
			r.Elems[i] = v
		}
	case KBytes:
		if keepGeometry && a.Arr != b.Arr {
			return nil, false // raw-buffer harnesses keep byte contents concrete per path
		}
		r.Arr = Ite(g, a.Arr, b.Arr)
	case KMap:
		if len(a.Entries) != len(b.Entries) {
			return nil, false
		}
		r.Entries = make([]MapEntry, len(a.Entries))
		for i := range a.Entries {
			k, ok := mergeVal(g, a.Entries[i].Key, b.Entries[i].Key)
			if !ok {
				return nil, false
			}
			v, ok := mergeVal(g, a.Entries[i].Val, b.Entries[i].Val)
			if !ok {
				return nil, false
			}
			r.Entries[i] = MapEntry{k, v}
		}
	}
	return r, true
}

// Outcome of a call: normal return (Ret) or panic.
type Outcome struct {
	St    *State
	Ret   Value
	Panic *PanicInfo
	Cut   bool // execution was cut at the first loop header of the function named by Engine.cutFn (ndAtFirstLoop)
}

type PanicInfo struct {
	Kind string
	Site string
}

var mergeFail string
var mergeDebug = os.Getenv("GOSYM_MERGEDBG") != ""

// keepGeometry: see mergeVal/VSlice (set per harness by the "keepgeom" spec flag).
var keepGeometry bool

// mergeOutcomes merges two normal outcomes that forked from a common state with
// entryLen path-condition conjuncts.
func mergeOutcomes(entryLen int, a, b *Outcome) (*Outcome, bool) {
	if a.Panic != nil || b.Panic != nil || a.Cut || b.Cut {
		return nil, false
	}
	if len(a.St.writes) != len(b.St.writes) || len(a.St.allocs) != len(b.St.allocs) {
		return nil, false
	}
	for i := range a.St.writes {
		if a.St.writes[i] != b.St.writes[i] {
			return nil, false
		}
	}
	// paths that were deliberately split on the value of a term (ndConcrete, concretised
	// lengths and indices) are never merged back
	for k, ca := range a.St.eqs {
		if cb, ok := b.St.eqs[k]; ok && cb != ca {
			return nil, false
		}
	}
	// cheap shape pre-check before any term is built
	if !canMerge(a.Ret, b.Ret) {
		if mergeDebug {
			mergeFail = "ret: " + describe(a.Ret) + " vs " + describe(b.Ret)
		}
		return nil, false
	}
	for id, oa := range a.St.heap {
		if ob, inB := b.St.heap[id]; inB && oa != ob {
			if oa.Kind != ob.Kind || !types.Identical(oa.Typ, ob.Typ) || (oa.Kind == KCell && !canMerge(oa.Val, ob.Val)) || len(oa.Elems) != len(ob.Elems) || len(oa.Entries) != len(ob.Entries) || (keepGeometry && oa.Kind == KBytes && oa.Arr != ob.Arr) {
				if mergeDebug {
					mergeFail = fmt.Sprintf("heap obj %d (%s, %s): %s vs %s", id, oa.Site, oa.Typ, describe(oa.Val), describe(ob.Val))
				}
				return nil, false
			}
		}
	}
	ga := And(a.St.pc[entryLen:]...)
	ret, ok := mergeVal(ga, a.Ret, b.Ret)
	if !ok {
		return nil, false
	}
	heap := make(map[ObjID]*Object, len(a.St.heap))
	for id, oa := range a.St.heap {
		ob, inB := b.St.heap[id]
		if !inB {
			heap[id] = oa
			continue
		}
		m, ok := mergeObj(ga, oa, ob)
		if !ok {
			return nil, false
		}
		heap[id] = m
	}
	for id, ob := range b.St.heap {
		if _, inA := a.St.heap[id]; !inA {
			heap[id] = ob
		}
	}
	// factor the conjuncts both paths share out of the disjunction
	inB := map[int]bool{}
	for _, t := range b.St.pc[entryLen:] {
		inB[t.ID] = true
	}
	var common, ra, rb []*Term
	inCommon := map[int]bool{}
	for _, t := range a.St.pc[entryLen:] {
		if inB[t.ID] {
			common = append(common, t)
			inCommon[t.ID] = true
		} else {
			ra = append(ra, t)
		}
	}
	for _, t := range b.St.pc[entryLen:] {
		if !inCommon[t.ID] {
			rb = append(rb, t)
		}
	}
	npc := append(append([]*Term(nil), a.St.pc[:entryLen]...), common...)
	if d := Or(And(ra...), And(rb...)); !d.IsTrue() {
		npc = append(npc, d)
	}
	st := &State{pc: npc, known: map[int]bool{}, eqs: map[int]*Term{},
		heap: heap, next: a.St.next, globals: a.St.globals, epoch: a.St.epoch, writes: a.St.writes, steps: a.St.steps + b.St.steps,
		ctx: a.St.ctx, cur: a.St.cur, occ: make(map[string]int, len(a.St.occ))}
	if b.St.next > st.next {
		st.next = b.St.next
	}
	for k, v := range a.St.occ {
		st.occ[k] = v
	}
	for k, v := range b.St.occ {
		if v > st.occ[k] {
			st.occ[k] = v
		}
	}
	for k, v := range a.St.known {
		if bv, ok := b.St.known[k]; ok && bv == v {
			st.known[k] = v
		}
	}
	for k, v := range a.St.eqs {
		if bv, ok := b.St.eqs[k]; ok && bv == v {
			st.eqs[k] = v
		}
	}
	st.allocs = make([]*Term, len(a.St.allocs))
	for i := range st.allocs {
		st.allocs[i] = Ite(ga, a.St.allocs[i], b.St.allocs[i])
	}
	return &Outcome{St: st, Ret: ret}, true
}

// describe renders a value for debugging.
func describe(v Value) string {
	switch x := v.(type) {
	case *Term:
		return x.String()
	case VPtr:
		return fmt.Sprintf("ptr(nil=%s,#%d%s)", x.Nil, x.Obj, pathStr(x.Path))
	case VIface:
		if x.Nil.IsTrue() {
			return "iface(nil)"
		}
		return fmt.Sprintf("iface(nil=%s,%s,%s)", x.Nil, x.Dyn, describe(x.Val))
	case VString:
		if s, ok := x.Concrete(); ok {
			return fmt.Sprintf("%q", s)
		}
		return fmt.Sprintf("string(len=%s,cap=%d)", x.Len, len(x.B))
	case VSlice:
		return fmt.Sprintf("slice(#%d,off=%s,len=%s)", x.Obj, x.Off, x.Len)
	case VStruct:
		var parts []string
		for _, f := range x.Fields {
			parts = append(parts, describe(f))
		}
		return "{" + strings.Join(parts, ",") + "}"
	case VTuple:
		var parts []string
		for _, f := range x.Elems {
			parts = append(parts, describe(f))
		}
		return "(" + strings.Join(parts, ",") + ")"
	}
	return fmt.Sprintf("%T", v)
}

func sortedKeys(m map[string]*Term) []string {
	ks := make([]string, 0, len(m))
	for k := range m {
		ks = append(ks, k)
	}
	sort.Strings(ks)
	return ks
}


// ---------- garbage collection of callee temporaries (before merging) ----------

// valueRefs reports every heap object directly referenced by v. ok=false if v contains an
// opaque payload whose references are unknown (then no collection is attempted).
func valueRefs(v Value, f func(ObjID)) bool {
	switch x := v.(type) {
	case nil, *Term, VString:
		return true
	case VPtr:
		if !x.Nil.IsTrue() && x.Obj != 0 {
			f(x.Obj)
		}
		return true
	case VIface:
		if x.Nil.IsTrue() {
			return true
		}
		return valueRefs(x.Val, f)
	case VStruct:
		for _, e := range x.Fields {
			if !valueRefs(e, f) {
				return false
			}
		}
		return true
	case VArray:
		for _, e := range x.Elems {
			if !valueRefs(e, f) {
				return false
			}
		}
		return true
	case VTuple:
		for _, e := range x.Elems {
			if !valueRefs(e, f) {
				return false
			}
		}
		return true
	case VSlice:
		if x.Obj != 0 {
			f(x.Obj)
		}
		return true
	case VMap:
		if x.Obj != 0 {
			f(x.Obj)
		}
		return true
	case VFunc:
		for _, b := range x.Bindings {
			if !valueRefs(b, f) {
				return false
			}
		}
		return true
	case VErr:
		for _, w := range x.Wraps {
			if !valueRefs(w, f) {
				return false
			}
		}
		return true
	case VOpaque:
		switch d := x.Data.(type) {
		case nil, string, float64, *regexProg, urlData:
			return true
		case *RVal:
			if d == nil {
				return true
			}
			if d.Addr != nil {
				f(d.Addr.Obj)
			}
			return valueRefs(d.Val, f)
		case *mapIter:
			for _, e := range d.entries {
				if !valueRefs(e.Key, f) || !valueRefs(e.Val, f) {
					return false
				}
			}
			return true
		default:
			if _, isType := x.Data.(interface{ Underlying() types.Type }); isType {
				return true
			}
			if r, ok := x.Data.(Refser); ok {
				return r.Refs(f)
			}
			return false
		}
	}
	return false
}

// Refser is implemented by opaque payloads that hold heap references.
type Refser interface{ Refs(f func(ObjID)) bool }

func objectRefs(o *Object, f func(ObjID)) bool {
	switch o.Kind {
	case KCell:
		return valueRefs(o.Val, f)
	case KArr:
		for _, e := range o.Elems {
			if !valueRefs(e, f) {
				return false
			}
		}
	case KMap:
		for _, e := range o.Entries {
			if !valueRefs(e.Key, f) || !valueRefs(e.Val, f) {
				return false
			}
		}
	}
	return true
}

// collect removes objects allocated at or after `from` that are unreachable from the return
// value and from older objects (the callee's dead temporaries).
func (s *State) collect(from ObjID, ret Value) {
	if s.next <= from {
		return
	}
	isNew := func(id ObjID) bool {
		if id >= 1<<29 {
			return false
		}
		o, ok := s.heap[id]
		return ok && o.Seq >= from
	}
	live := map[ObjID]bool{}
	var stack []ObjID
	mark := func(id ObjID) {
		if isNew(id) && !live[id] {
			live[id] = true
			stack = append(stack, id)
		}
	}
	if !valueRefs(ret, mark) {
		return
	}
	for id, o := range s.heap {
		if !isNew(id) {
			if !objectRefs(o, mark) {
				return
			}
		}
	}
	for len(stack) > 0 {
		id := stack[len(stack)-1]
		stack = stack[:len(stack)-1]
		if o, ok := s.heap[id]; ok {
			if !objectRefs(o, mark) {
				return
			}
		}
	}
	for id := range s.heap {
		if isNew(id) && !live[id] {
			delete(s.heap, id)
		}
	}
}

// checkSlices (debug): every generic slice's window lies inside its backing array
func (s *State) checkSlices(where string) {
	var chk func(v Value)
	chk = func(v Value) {
		switch x := v.(type) {
		case VSlice:
			if !x.Bytes && x.Obj != 0 && x.Cap.IsConst() && x.Off.IsConst() {
				o, ok := s.heap[x.Obj]
				if !ok {
					panic(fmt.Sprintf("%s: slice over missing object %d", where, x.Obj))
				}
				if arr, ok := o.Val.(VArray); ok {
					if int(x.Off.Int()+x.Cap.Int()) > len(arr.Elems) {
						panic(fmt.Sprintf("%s: slice obj %d off %d cap %d over array of %d (%s)", where, x.Obj, x.Off.Int(), x.Cap.Int(), len(arr.Elems), o.Site))
					}
				}
			}
		case VStruct:
			for _, f := range x.Fields {
				chk(f)
			}
		case VArray:
			for _, f := range x.Elems {
				chk(f)
			}
		case VIface:
			if !x.Nil.IsTrue() {
				chk(x.Val)
			}
		case VTuple:
			for _, f := range x.Elems {
				chk(f)
			}
		}
	}
	for _, o := range s.heap {
		if o.Kind == KCell {
			chk(o.Val)
		}
	}
}
