package main

// Harness runner: executes one harness symbolically, extracts models, replays them natively.

import (
	"encoding/hex"
	"encoding/json"
	"fmt"
	"go/types"
	"os"
	"os/exec"
	"path/filepath"
	"sort"
	"strconv"
	"strings"
	"time"

	"golang.org/x/tools/go/ssa"
)

type HarnessSpec struct {
	Name      string `json:"name"`    // harness id, e.g. C14 or C01p1
	Pkg       string `json:"pkg"`     // psatoken | encoding
	Func      string `json:"func"`    // Go function name
	Unroll    int    `json:"unroll"`  // loop bound
	StrCap    int    `json:"strcap"`  // []byte->string bound
	AppendCap int    `json:"appendcap"`
	Permute   bool   `json:"permute"` // all map iteration orders
	Track     bool   `json:"track"`   // ghost write tracking
	Allocs    bool   `json:"allocs"`  // ghost allocation tracking
	PanicObls bool   `json:"panicobls"` // list every implicit no-panic check of own code as an obligation
	Race      bool   `json:"race"`  // build the native replay with the race detector
	Eager     bool   `json:"eager"` // check feasibility at every branch (default: lazy forking)
	KeepGeom  bool   `json:"keepgeom"` // do not merge byte windows of different concrete geometry
	Params    map[string]int `json:"params"` // harness-visible bounds (ndParam)
	Timeout   int    `json:"timeout_s"`
	QueryTO   int    `json:"query_timeout_s"` // per solver query (default 60)
	LoopObl   string `json:"loopobl"`         // if set: a loop that can exceed the unwinding bound is a VIOLATION of this obligation (to be confirmed natively), not an unwinding failure
	Bounds    string `json:"bounds"`  // human-readable statement of the bounds
	Outside   string `json:"outside"` // what lies outside
	Stubs     []string `json:"stubs"`
}

type HarnessResult struct {
	Spec        HarnessSpec            `json:"spec"`
	Obligations []*Obligation          `json:"obligations"`
	Covers      []*CoverRec            `json:"covers"`
	Unwinding   []string               `json:"unwinding_incomplete"`
	Inconcl     []string               `json:"inconclusive"`
	Funcs       map[string]int         `json:"functions_encoded"`
	States      int                    `json:"states"`
	Instrs      int                    `json:"instrs"`
	Merges      int                    `json:"merges"`
	Paths       int                    `json:"paths"`
	Queries     int                    `json:"queries"`
	Sat         int                    `json:"sat"`
	Unsat       int                    `json:"unsat"`
	Unknown     int                    `json:"unknown"`
	SolverS     float64                `json:"solver_s"`
	WallS       float64                `json:"wall_s"`
	LoadS       float64                `json:"load_s"`
	Replays     int                    `json:"replays"`
	Spurious    int                    `json:"spurious_models"`
	SolverErrs  []string               `json:"solver_errors"`
	Cross       map[string]string      `json:"cross_check,omitempty"`
	Extra       map[string]interface{} `json:"extra,omitempty"`
}

func newEngine(prog *ssa.Program, pkgs map[string]*ssa.Package, spec HarnessSpec, solver *Solver) *Engine {
	e := &Engine{prog: prog, pkgs: pkgs, solver: solver,
		cfg:       Config{Unroll: spec.Unroll, MaxDepth: 60, StrCap: spec.StrCap, AppendCap: spec.AppendCap, MaxPaths: 20000, TrackWrite: spec.Track},
		globalIDs: map[*ssa.Global]ObjID{}, ownPkgs: map[string]bool{modPath: true, modPath + "/encoding": true},
		nd: map[string]*NDVar{}, Covers: map[string]*CoverRec{}, FuncsSeen: map[string]int{}, fakeTypes: map[string]types.Type{}, regexCache: map[string]*regexProg{}}
	if e.cfg.Unroll == 0 {
		e.cfg.Unroll = 8
	}
	if e.cfg.StrCap == 0 {
		e.cfg.StrCap = 24
	}
	if e.cfg.AppendCap == 0 {
		e.cfg.AppendCap = 16
	}
	e.permuteMaps = spec.Permute
	keepGeometry = spec.KeepGeom
	e.panicObls = spec.PanicObls
	e.lazyBranch = !spec.Eager && os.Getenv("GOSYM_EAGER") == ""
	e.joinMerge = os.Getenv("GOSYM_NOJOIN") == ""
	e.trackAllocs = spec.Allocs
	e.params = spec.Params
	e.registerIntrinsics()
	return e
}

// runInit executes the package initialisers of the repo's packages.
func (e *Engine) runInit(st *State) *State {
	for _, p := range []string{modPath + "/encoding", modPath} {
		pkg := e.pkgs[p]
		if pkg == nil {
			unsupported("package %s not loaded", p)
		}
		initFn := pkg.Func("init")
		outs := e.CallFn(st, initFn, nil, nil, 0)
		var next *State
		for _, o := range outs {
			if o.Panic != nil {
				unsupported("package init of %s panics (%s at %s)", p, o.Panic.Kind, o.Panic.Site)
			}
			if next != nil {
				unsupported("package init of %s forks", p)
			}
			next = o.St
		}
		if next == nil {
			unsupported("package init of %s has no outcome", p)
		}
		st = next
	}
	return st
}

func intrNdAssert(e *Engine, c *CallCtx) []Outcome {
	id, _ := c.Args[0].(VString).Concrete()
	cond := c.Args[1].(*Term)
	e.checkObligation(c.St, "assert", id, c.Site, Not(cond))
	if e.feasible(c.St, cond) == Unsat {
		return nil
	}
	c.St.Assume(cond)
	return one(c.St, nil)
}

// checkObligation decides whether `bad` is reachable from st.
func (e *Engine) checkObligation(st *State, kind, id, site string, bad *Term) {
	key := kind + ":" + id
	var ob *Obligation
	for _, o := range e.Obls {
		if o.Kind+":"+o.ID == key {
			ob = o
		}
	}
	if ob == nil {
		ob = &Obligation{ID: id, Kind: kind, Site: site, Result: "holds", Harness: e.harness}
		e.Obls = append(e.Obls, ob)
	}
	if ob.Result == "violated" && (len(e.prefs) == 0 || ob.Tries > 24) {
		return // one counterexample per obligation is enough (unless a more preferred one may exist)
	}
	bad = st.Simp(bad)
	if bad.IsFalse() {
		return
	}
	as := append(append([]*Term(nil), st.pc...), bad)
	as = append(as, e.exclude...)
	r := e.solver.Check(as)
	switch r {
	case Unsat:
		return
	case Unknown:
		ob.Result = "inconclusive"
		ob.Note = "solver unknown"
		return
	}
	m, err := e.extractModel(as)
	if err != nil {
		if ob.Result != "violated" {
			ob.Result = "inconclusive"
			ob.Note = "model extraction failed: " + err.Error()
		}
		return
	}
	score := e.lastPrefScore
	ob.Tries++
	if ob.Result == "violated" && score <= ob.PrefScore {
		return
	}
	ob.Result = "violated"
	ob.Model = m
	ob.PrefScore = score
	e.dumpQuery(key, as)
}

func (e *Engine) dumpQuery(key string, as []*Term) {
	if e.smtDir == "" {
		return
	}
	os.MkdirAll(e.smtDir, 0o755)
	name := strings.NewReplacer(":", "_", "/", "_", " ", "_").Replace(e.harness + "_" + key)
	os.WriteFile(filepath.Join(e.smtDir, name+".smt2"), []byte(Script(as, "")), 0o644)
}

func intrNdCover(e *Engine, c *CallCtx) []Outcome {
	id, _ := c.Args[0].(VString).Concrete()
	cond := c.Args[1].(*Term)
	cr := e.Covers[id]
	if cr == nil {
		cr = &CoverRec{ID: id}
		e.Covers[id] = cr
		e.CoverOrder = append(e.CoverOrder, id)
	}
	if cr.Reached {
		return one(c.St, nil)
	}
	as := append(append([]*Term(nil), c.St.pc...), cond)
	as = append(as, e.exclude...)
	if e.solver.Check(as) == Sat {
		if m, err := e.extractModel(as); err == nil {
			cr.Reached = true
			cr.Model = m
		}
	}
	return one(c.St, nil)
}

// extractModel reads the nondet assignment of the currently open model, preferring short buffers.
func (e *Engine) extractModel(as []*Term) (map[string]interface{}, error) {
	// greedily honour the harness's soft preferences (models that replay natively more often)
	if len(e.prefs) > 0 {
		kept := append([]*Term(nil), as...)
		e.lastPrefScore = 0
		for i, p := range e.prefs {
			if e.solver.Check(append(append([]*Term(nil), kept...), p)) == Sat {
				kept = append(kept, p)
				if i < 30 {
					e.lastPrefScore += 1 << uint(30-i) // earlier preferences weigh more (lexicographic)
				}
			}
		}
		as = kept
		if e.solver.Check(as) != Sat {
			return nil, fmt.Errorf("model vanished")
		}
	}
	var lens []*Term
	for _, n := range e.ndOrder {
		v := e.nd[n]
		if v.Kind == "bytes" {
			lens = append(lens, v.Len)
		}
	}
	if len(lens) > 0 {
		ok := false
		for _, lim := range []int64{80, 4096} {
			var cs []*Term
			for _, l := range lens {
				cs = append(cs, CmpBV(OSLe, l, I64(lim)))
			}
			if e.solver.Check(append(append([]*Term(nil), as...), cs...)) == Sat {
				ok = true
				break
			}
		}
		if !ok {
			if e.solver.Check(as) != Sat {
				return nil, fmt.Errorf("model vanished")
			}
		}
	}
	out := map[string]interface{}{}
	for _, n := range e.ndOrder {
		v := e.nd[n]
		switch v.Kind {
		case "bytes":
			lv, err := e.solver.Values([]*Term{v.Len})
			if err != nil {
				return nil, err
			}
			ln := int64(lv[0])
			rd := ln
			if rd > 65536 {
				rd = 65536
			}
			if rd < 0 {
				rd = 0
			}
			ts := make([]*Term, rd)
			for i := range ts {
				ts[i] = Select(v.Arr, I64(int64(i)))
			}
			bs := make([]byte, rd)
			if rd > 0 {
				vals, err := e.solver.Values(ts)
				if err != nil {
					return nil, err
				}
				for i := range bs {
					bs[i] = byte(vals[i])
				}
			}
			out[n] = map[string]interface{}{"k": "bytes", "len": strconv.FormatInt(ln, 10), "v": hex.EncodeToString(bs)}
		case "string":
			ts := append([]*Term{v.Len}, v.B...)
			vals, err := e.solver.Values(ts)
			if err != nil {
				return nil, err
			}
			ln := int(int64(vals[0]))
			if ln > len(v.B) {
				ln = len(v.B)
			}
			if ln < 0 {
				ln = 0 // variable not constrained on this path
			}
			bs := make([]byte, ln)
			for i := range bs {
				bs[i] = byte(vals[1+i])
			}
			out[n] = map[string]interface{}{"k": "string", "v": hex.EncodeToString(bs)}
		default:
			vals, err := e.solver.Values([]*Term{v.T})
			if err != nil {
				return nil, err
			}
			x := vals[0]
			var s string
			if v.Sign {
				s = strconv.FormatInt(signExt(x, v.W), 10)
			} else {
				s = strconv.FormatUint(x, 10)
			}
			out[n] = map[string]interface{}{"k": v.Kind, "v": s}
		}
	}
	return out, nil
}

// ---------- native replay ----------

type replayCase struct {
	ID      string                 `json:"id"`
	Harness string                 `json:"harness"`
	Vars    map[string]interface{} `json:"vars"`
	Params  map[string]int         `json:"params,omitempty"`
}

type replayOutcome struct {
	Failed   []string
	Covers   []string
	Panicked string
	AssumeKO bool
	Done     bool
	Race     bool // the race detector reported a data race while this case ran
	OOM      bool // the replay process died with an out-of-memory error inside this case
}

var replayRace bool

func nativeReplay(verifDir, pkg string, cases []replayCase) (map[string]*replayOutcome, string, error) {
	res := map[string]*replayOutcome{}
	if len(cases) == 0 {
		return res, "", nil
	}
	ov, err := overlayFiles(verifDir)
	if err != nil {
		return nil, "", err
	}
	ovPath, err := writeOverlayJSON(verifDir, ov)
	if err != nil {
		return nil, "", err
	}
	defer os.Remove(ovPath)
	os.MkdirAll(filepath.Join(scratchDir(verifDir), "out", "replay"), 0o755)
	batch := filepath.Join(scratchDir(verifDir), "out", "replay", fmt.Sprintf("batch-%d-%d.json", os.Getpid(), time.Now().UnixNano()))
	b, _ := json.Marshal(cases)
	if err := os.WriteFile(batch, b, 0o644); err != nil {
		return nil, "", err
	}
	defer os.Remove(batch)
	target := "."
	sub := ""
	if pkg == "encoding" {
		target = "./encoding"
		sub = "encoding"
	}
	env := append(os.Environ(), "VERIF_REPLAY_FILE="+batch, "GOFLAGS=-mod=mod", "GOPROXY=off", "GOSUMDB=off", "GOTOOLCHAIN=local")
	// build the test binary, then run it under an address-space limit so that a hostile
	// allocation kills only the replay process (reported as such), never the machine
	bin := filepath.Join(scratchDir(verifDir), "out", "replay", fmt.Sprintf("replay-%d-%d.test", os.Getpid(), time.Now().UnixNano()))
	defer os.Remove(bin)
	bargs := []string{"test", "-c", "-tags", "verif", "-overlay", ovPath, "-vet=off", "-o", bin}
	if replayRace {
		bargs = append(bargs, "-race")
	}
	build := exec.Command("go", append(bargs, target)...)
	build.Dir = repoDir
	build.Env = env
	if bo, err := build.CombinedOutput(); err != nil {
		return res, string(bo), fmt.Errorf("native replay build failed")
	}
	cmd := exec.Command("sh", "-c", "ulimit -v 8388608; exec \"$0\" -test.run '^TestVerifReplay$' -test.v -test.timeout 300s", bin)
	cmd.Dir = filepath.Join(repoDir, sub)
	cmd.Env = env
	outb, _ := cmd.CombinedOutput()
	out := string(outb)
	var cur *replayOutcome
	for _, line := range strings.Split(out, "\n") {
		line = strings.TrimSpace(line)
		switch {
		case strings.HasPrefix(line, "VERIF-BEGIN "):
			cur = &replayOutcome{}
			res[strings.TrimPrefix(line, "VERIF-BEGIN ")] = cur
		case cur == nil:
		case strings.HasPrefix(line, "VERIF-FAIL "):
			cur.Failed = append(cur.Failed, strings.TrimPrefix(line, "VERIF-FAIL "))
		case strings.HasPrefix(line, "VERIF-COVER "):
			cur.Covers = append(cur.Covers, strings.TrimPrefix(line, "VERIF-COVER "))
		case strings.Contains(line, "DATA RACE"):
			cur.Race = true
		case strings.HasPrefix(line, "VERIF-PANIC "):
			cur.Panicked = strings.TrimPrefix(line, "VERIF-PANIC ")
		case line == "VERIF-ASSUME-FAILED":
			cur.AssumeKO = true
		case strings.HasPrefix(line, "VERIF-END"):
			cur.Done = true
			cur = nil
		}
	}
	if cur != nil && (strings.Contains(out, "out of memory") || strings.Contains(out, "cannot allocate memory")) {
		cur.OOM = true
	}
	if !strings.Contains(out, "VERIF-BEGIN") {
		return res, out, fmt.Errorf("native replay produced no results")
	}
	return res, out, nil
}

func contains(xs []string, x string) bool {
	for _, y := range xs {
		if y == x {
			return true
		}
	}
	return false
}

// runHarness is the entry point of `gosym harness`.
func runHarness(verifDir string, spec HarnessSpec, seed int, thorough bool) (*HarnessResult, error) {
	t0 := time.Now()
	res := &HarnessResult{Spec: spec, Funcs: map[string]int{}}
	prog, pkgs, err := loadProgram(verifDir)
	if err != nil {
		res.Inconcl = append(res.Inconcl, "load: "+err.Error())
		res.WallS = time.Since(t0).Seconds()
		return res, nil
	}
	res.LoadS = time.Since(t0).Seconds()
	bin := os.Getenv("GOSYM_SOLVER")
	if bin == "" {
		bin = "z3-new"
	}
	qto := 60000
	if spec.QueryTO > 0 {
		qto = spec.QueryTO * 1000
	}
	solver, err := NewSolver(bin, qto, seed)
	if err != nil {
		return nil, err
	}
	defer solver.Close()
	e := newEngine(prog, pkgs, spec, solver)
	e.harness = spec.Name
	e.loopObl = spec.LoopObl
	dbgEngine = e
	if os.Getenv("GOSYM_FNSTATS") != "" {
		e.fnStats = map[string][3]int{}
	}
	if thorough {
		e.smtDir = filepath.Join(scratchDir(verifDir), "out", "smt")
	}
	e.loadKnownFindings(verifDir, spec.Name)
	replayRace = spec.Race
	func() {
		defer func() {
			if r := recover(); r != nil {
				if u, ok := r.(Unsupported); ok {
					res.Inconcl = append(res.Inconcl, u.Msg)
					return
				}
				panic(r)
			}
		}()
		st := NewState()
		st = e.runInit(st)
		pkgPath := modPath
		if spec.Pkg == "encoding" {
			pkgPath += "/encoding"
		}
		fn := pkgs[pkgPath].Func(spec.Func)
		if fn == nil {
			unsupported("harness function %s not found in %s", spec.Func, pkgPath)
		}
		st.epoch = 1
		outs := e.CallFn(st, fn, nil, nil, 0)
		for _, o := range outs {
			if o.Panic != nil {
				e.checkObligation(o.St, "panic", o.Panic.Kind+"@"+o.Panic.Site, o.Panic.Site, True)
			}
		}
	}()
	// native confirmation of models (violations and covers)
	var cases []replayCase
	for i, ob := range e.Obls {
		if ob.Result == "violated" {
			cases = append(cases, replayCase{ID: fmt.Sprintf("ob%d", i), Harness: spec.Name, Vars: ob.Model, Params: spec.Params})
		}
	}
	for _, id := range e.CoverOrder {
		cr := e.Covers[id]
		if cr.Reached {
			cases = append(cases, replayCase{ID: "cover:" + id, Harness: spec.Name, Vars: cr.Model, Params: spec.Params})
		}
	}
	if len(cases) > 0 {
		rr, raw, err := nativeReplay(verifDir, spec.Pkg, cases)
		res.Replays = len(cases)
		if err != nil {
			res.Inconcl = append(res.Inconcl, "native replay failed: "+err.Error()+": "+tail(raw, 600))
		} else {
			// a case that killed the process takes the rest of the batch with it: re-run the
			// unfinished ones one by one
			for _, cs := range cases {
				if ro := rr[cs.ID]; ro == nil || (!ro.Done && !ro.OOM && ro.Panicked == "") {
					if r1, _, e1 := nativeReplay(verifDir, spec.Pkg, []replayCase{cs}); e1 == nil && r1[cs.ID] != nil {
						rr[cs.ID] = r1[cs.ID]
					}
				}
			}
		}
		for i, ob := range e.Obls {
			if ob.Result != "violated" {
				continue
			}
			ro := rr[fmt.Sprintf("ob%d", i)]
			switch {
			case ro != nil && ro.Race && strings.HasPrefix(ob.ID, "c17-"):
				ob.Confirmd = true
				ob.Note = "native run: the Go race detector reported a data race"
			case ro != nil && ro.OOM && strings.HasPrefix(ob.ID, "c06-"):
				ob.Confirmd = true
				ob.Note = "native run died with an unrecoverable out-of-memory error (address space limited to 8 GiB)"
			case ro == nil || !ro.Done && ro.Panicked == "":
				ob.Result = "inconclusive"
				ob.Note = "native replay did not complete"
			case ob.Kind == "panic" && ro.Panicked != "":
				ob.Confirmd = true
				ob.Note = "native panic: " + ro.Panicked
			case ob.Kind == "assert" && contains(ro.Failed, ob.ID):
				ob.Confirmd = true
			case ob.Kind == "alloc" && contains(ro.Failed, ob.ID):
				ob.Confirmd = true
			default:
				ob.Result = "spurious"
				ob.Note = fmt.Sprintf("model not reproduced natively (failed=%v panic=%q assumeKO=%v)", ro.Failed, ro.Panicked, ro.AssumeKO)
				res.Spurious++
			}
		}
		for _, id := range e.CoverOrder {
			cr := e.Covers[id]
			if ro := rr["cover:"+id]; ro != nil && (contains(ro.Covers, id) || (cr.SymOnly && ro.Done)) {
				cr.Native = true
			}
		}
	}
	res.Obligations = e.Obls
	for _, id := range e.CoverOrder {
		res.Covers = append(res.Covers, e.Covers[id])
	}
	res.Unwinding = e.Unwinding
	res.Funcs = e.FuncsSeen
	res.States = e.States + 1
	res.Instrs = e.Instrs
	res.Merges = e.Merges
	res.Paths = e.PathsEnded
	res.Queries = solver.Queries
	res.Sat, res.Unsat, res.Unknown = solver.NSat, solver.NUnsat, solver.NUnknown
	res.SolverS = solver.Wall.Seconds()
	res.SolverErrs = solver.Errors
	if len(solver.Errors) > 0 {
		res.Inconcl = append(res.Inconcl, fmt.Sprintf("%d solver errors (first: %s)", len(solver.Errors), solver.Errors[0]))
	}
	res.Extra = e.extra
	e.printFnStats()
	res.WallS = time.Since(t0).Seconds()
	sort.SliceStable(res.Obligations, func(i, j int) bool { return res.Obligations[i].ID < res.Obligations[j].ID })
	return res, nil
}

func tail(s string, n int) string {
	if len(s) > n {
		return s[len(s)-n:]
	}
	return s
}

func (e *Engine) printFnStats() {
	if e.fnStats != nil {
		type kv struct {
			k string
			v [3]int
		}
		var l []kv
		for k, v := range e.fnStats {
			l = append(l, kv{k, v})
		}
		sort.Slice(l, func(i, j int) bool { return l[i].v[1] > l[j].v[1] })
		for i, x := range l {
			if i > 25 && x.v[2] <= x.v[0] {
				continue
			}
			fmt.Fprintf(os.Stderr, "%-70s calls=%d paths=%d merged=%d\n", x.k, x.v[0], x.v[1], x.v[2])
		}
	}
}
