package main

import (
	"fmt"
	"go/types"
	"os"
	"path/filepath"
	"strings"

	"golang.org/x/tools/go/packages"
	"golang.org/x/tools/go/ssa"
	"golang.org/x/tools/go/ssa/ssautil"
)

// repoDir: the tree under check (/repo; VERIF_REPO overrides it for seeded-change experiments on a scratch copy)
var repoDir = func() string {
	if d := os.Getenv("VERIF_REPO"); d != "" {
		return d
	}
	return "/repo"
}()
const modPath = "github.com/veraison/psatoken"

// overlayFiles maps virtual paths under /repo to real harness files under /verif/harness.
// Files in harness/common are injected into both packages with the package clause rewritten.
func overlayFiles(verifDir string) (map[string]string, error) {
	out := map[string]string{}
	gen := filepath.Join(scratchDir(verifDir), "out", "gen")
	os.MkdirAll(gen, 0o755)
	for _, pk := range []struct{ dir, pkg, sub string }{{"psatoken", "psatoken", ""}, {"encoding", "encoding", "encoding"}} {
		// common files
		commons, _ := filepath.Glob(filepath.Join(verifDir, "harness", "common", "*.go"))
		for _, c := range commons {
			b, err := os.ReadFile(c)
			if err != nil {
				return nil, err
			}
			s := strings.Replace(string(b), "package PKG", "package "+pk.pkg, 1)
			real := filepath.Join(gen, pk.pkg+"_"+filepath.Base(c))
			if old, err := os.ReadFile(real); err != nil || string(old) != s {
				if err := os.WriteFile(real, []byte(s), 0o644); err != nil {
					return nil, err
				}
			}
			out[filepath.Join(repoDir, pk.sub, filepath.Base(c))] = real
		}
		files, _ := filepath.Glob(filepath.Join(verifDir, "harness", pk.dir, "*.go"))
		for _, f := range files {
			out[filepath.Join(repoDir, pk.sub, filepath.Base(f))] = f
		}
	}
	return out, nil
}

func writeOverlayJSON(verifDir string, ov map[string]string) (string, error) {
	var sb strings.Builder
	sb.WriteString("{\"Replace\":{")
	first := true
	for k, v := range ov {
		if !first {
			sb.WriteString(",")
		}
		first = false
		fmt.Fprintf(&sb, "%q:%q", k, v)
	}
	sb.WriteString("}}")
	// one file per process: harnesses of one check run in parallel processes and a shared
	// file could be read while another process is rewriting it
	p := filepath.Join(scratchDir(verifDir), "out", fmt.Sprintf("overlay-%d.json", os.Getpid()))
	tmp := p + ".tmp"
	if err := os.WriteFile(tmp, []byte(sb.String()), 0o644); err != nil {
		return p, err
	}
	return p, os.Rename(tmp, p)
}

func loadProgram(verifDir string) (*ssa.Program, map[string]*ssa.Package, error) {
	ov, err := overlayFiles(verifDir)
	if err != nil {
		return nil, nil, err
	}
	overlay := map[string][]byte{}
	for virt, real := range ov {
		b, err := os.ReadFile(real)
		if err != nil {
			return nil, nil, err
		}
		overlay[virt] = b
	}
	cfg := &packages.Config{
		Mode:       packages.LoadAllSyntax,
		Dir:        repoDir,
		Overlay:    overlay,
		BuildFlags: []string{"-tags=verif"},
		Env:        append(os.Environ(), "GOFLAGS=-mod=mod", "GOPROXY=off", "GOSUMDB=off", "GOTOOLCHAIN=local"),
	}
	pkgs, err := packages.Load(cfg, modPath, modPath+"/encoding")
	if err != nil {
		return nil, nil, err
	}
	var errs []string
	packages.Visit(pkgs, nil, func(p *packages.Package) {
		for _, e := range p.Errors {
			errs = append(errs, e.Error())
		}
	})
	if len(errs) > 0 {
		return nil, nil, fmt.Errorf("package load errors: %s", strings.Join(errs, "; "))
	}
	prog, spkgs := ssautil.AllPackages(pkgs, ssa.InstantiateGenerics)
	prog.Build()
	m := map[string]*ssa.Package{}
	for _, p := range spkgs {
		if p != nil {
			m[p.Pkg.Path()] = p
		}
	}
	for _, p := range prog.AllPackages() {
		m[p.Pkg.Path()] = p
	}
	return prog, m, nil
}

func lookupNamed(pkgs map[string]*ssa.Package, pkg, name string) types.Type {
	p := pkgs[pkg]
	if p == nil {
		return nil
	}
	o := p.Pkg.Scope().Lookup(name)
	if o == nil {
		return nil
	}
	return o.Type()
}

// scratchDir: where out/, evidence/ and replays/ are written (the /verif directory itself;
// VERIF_SCRATCH redirects them for seeded-change experiments that must not touch the
// committed evidence).
func scratchDir(verifDir string) string {
	if d := os.Getenv("VERIF_SCRATCH"); d != "" {
		return d
	}
	return verifDir
}
