package main

// L1 contract stubs: nd.*, errors, fmt, strings, strconv, binary, regexp.

import (
	"fmt"
	"go/types"
	"regexp/syntax"
	"strconv"
	"strings"
	"unicode/utf8"

	"golang.org/x/tools/go/ssa"
)

var errorType = types.Universe.Lookup("error").Type()

func (e *Engine) registerIntrinsics() {
	e.intr = map[string]Intrinsic{}
	for _, p := range []string{modPath, modPath + "/encoding"} {
		pp := p
		e.intr[pp+".ndBool"] = func(e *Engine, c *CallCtx) []Outcome {
			return one(c.St, e.ndScalar(c, "bool", 0, false))
		}
		e.intr[pp+".ndUint8"] = func(e *Engine, c *CallCtx) []Outcome { return one(c.St, e.ndScalar(c, "u8", 8, false)) }
		e.intr[pp+".ndUint16"] = func(e *Engine, c *CallCtx) []Outcome { return one(c.St, e.ndScalar(c, "u16", 16, false)) }
		e.intr[pp+".ndUint32"] = func(e *Engine, c *CallCtx) []Outcome { return one(c.St, e.ndScalar(c, "u32", 32, false)) }
		e.intr[pp+".ndUint64"] = func(e *Engine, c *CallCtx) []Outcome { return one(c.St, e.ndScalar(c, "u64", 64, false)) }
		e.intr[pp+".ndUint"] = func(e *Engine, c *CallCtx) []Outcome { return one(c.St, e.ndScalar(c, "u64", 64, false)) }
		e.intr[pp+".ndInt32"] = func(e *Engine, c *CallCtx) []Outcome { return one(c.St, e.ndScalar(c, "i32", 32, true)) }
		e.intr[pp+".ndInt"] = func(e *Engine, c *CallCtx) []Outcome { return one(c.St, e.ndScalar(c, "i64", 64, true)) }
		e.intr[pp+".ndBytes"] = intrNdBytes
		e.intr[pp+".ndString"] = intrNdString
		e.intr[pp+".ndAssume"] = intrNdAssume
		e.intr[pp+".ndAssert"] = intrNdAssert
		e.intr[pp+".ndCover"] = intrNdCover
		e.intr[pp+".ndCoverSym"] = func(e *Engine, c *CallCtx) []Outcome {
			outs := intrNdCover(e, c)
			id, _ := c.Args[0].(VString).Concrete()
			if cr := e.Covers[id]; cr != nil {
				cr.SymOnly = true
			}
			return outs
		}
		e.intr[pp+".ndTry"] = intrNdTry
		e.intr[pp+".ndOpt"] = intrNdOpt
		e.intr[pp+".ndName"] = intrNdName
		e.intr[pp+".ndParam"] = func(e *Engine, c *CallCtx) []Outcome {
			name := e.ndName(c, c.Args[0])
			if v, ok := e.params[name]; ok {
				return one(c.St, I64(int64(v)))
			}
			return one(c.St, c.Args[1])
		}
		e.intr[pp+".ndBytesEqual"] = func(e *Engine, c *CallCtx) []Outcome {
			return one(c.St, e.bytesEq(c.St, c.Args[0].(VSlice), c.Args[1].(VSlice), e.eqBound()))
		}
		e.intr[pp+".ndCopyBytes"] = func(e *Engine, c *CallCtx) []Outcome {
			src := c.Args[0].(VSlice)
			arr := ConstArr(0)
			if src.Obj != 0 {
				arr = c.St.Obj(src.Obj).Arr
			}
			id := c.St.Alloc(&Object{Kind: KBytes, Typ: types.Typ[types.Uint8], Arr: arr, Site: c.Site})
			return one(c.St, VSlice{Nil: False, Obj: id, Off: src.Off, Len: src.Len, Cap: src.Len, Bytes: true})
		}
		e.intr[pp+".ndAllocMark"] = func(e *Engine, c *CallCtx) []Outcome {
			return one(c.St, BVC(uint64(len(c.St.allocs)), 64))
		}
		e.intr[pp+".ndAllocSince"] = func(e *Engine, c *CallCtx) []Outcome {
			m, ok := c.St.Conc(c.Args[0].(*Term))
			if !ok {
				unsupported("ndAllocSince mark must be concrete")
			}
			// saturating sum of the (non-negative) sizes requested since the mark
			sum := I64(0)
			big := False
			lim := I64(1 << 50)
			for _, a := range c.St.allocs[int(m.Uint()):] {
				big = Or(big, Not(CmpBV(OULt, a, lim)))
				sum = BinBV(OAdd, sum, Ite(CmpBV(OULt, a, lim), a, I64(0)))
			}
			return one(c.St, Ite(big, lim, sum))
		}
		e.intr[pp+".ndReaches"] = func(e *Engine, c *CallCtx) []Outcome {
			buf := c.Args[1].(VSlice)
			if buf.Obj == 0 {
				return one(c.St, False)
			}
			seen := map[ObjID]bool{}
			found := false
			var visit func(id ObjID)
			mark := func(id ObjID) {
				if id == buf.Obj {
					found = true
					return
				}
				if !seen[id] {
					seen[id] = true
					visit(id)
				}
			}
			visit = func(id ObjID) {
				if o, ok := c.St.heap[id]; ok {
					objectRefs(o, mark)
				}
			}
			valueRefs(c.Args[0], mark)
			return one(c.St, BoolC(found))
		}
		e.intr[pp+".ndShares"] = func(e *Engine, c *CallCtx) []Outcome {
			// some heap object is reachable from both roots (nil-ness ignored: over-approximate;
			// the native run decides)
			reach := func(root Value) map[ObjID]bool {
				seen := map[ObjID]bool{}
				var visit func(id ObjID)
				mark := func(id ObjID) {
					if !seen[id] {
						seen[id] = true
						visit(id)
					}
				}
				visit = func(id ObjID) {
					if o, ok := c.St.heap[id]; ok {
						objectRefs(o, mark)
					}
				}
				valueRefs(root, mark)
				return seen
			}
			ra, rb := reach(c.Args[0]), reach(c.Args[1])
			for id := range ra {
				if rb[id] {
					if o, ok := c.St.heap[id]; ok && o.Kind == KCell {
						if _, isOpaque := o.Val.(VOpaque); isOpaque {
							continue // modelled library object (compiled pattern, type descriptor): immutable
						}
						if _, isErr := o.Val.(VErr); isErr {
							continue // sentinel errors are shared by design and immutable
						}
					}
					return one(c.St, True)
				}
			}
			return one(c.St, False)
		}
		e.intr[pp+".ndFakeLenInts"] = func(e *Engine, c *CallCtx) []Outcome {
			// a []int of symbolic length whose elements are never read (see ndAtFirstLoop)
			n := c.Args[0].(*Term)
			id := c.St.Alloc(&Object{Kind: KCell, Typ: types.NewArray(types.Typ[types.Int], 0), Val: VArray{}, Site: c.Site})
			return one(c.St, VSlice{Nil: False, Obj: id, Off: I64(0), Len: n, Cap: n})
		}
		e.intr[pp+".ndAtFirstLoop"] = func(e *Engine, c *CallCtx) []Outcome {
			name, ok := c.Args[0].(VString).Concrete()
			if !ok {
				unsupported("ndAtFirstLoop: function name must be constant")
			}
			prev := e.cutFn
			e.cutFn = name
			outs := e.callValue(c.St, c.Args[1], nil, c.Instr, c.Depth+1)
			e.cutFn = prev
			var res []Outcome
			for _, o := range outs {
				switch {
				case o.Panic != nil:
					res = append(res, o)
				case o.Cut:
					res = append(res, Outcome{St: o.St, Ret: VTuple{Elems: []Value{o.Ret, True}}})
				default:
					res = append(res, Outcome{St: o.St, Ret: VTuple{Elems: []Value{NilSlice(true), False}}})
				}
			}
			return res
		}
		e.intr[pp+".ndWriteMark"] = func(e *Engine, c *CallCtx) []Outcome {
			// everything allocated so far is "pre-existing"; writes to it are logged from now on
			c.St.epoch++
			return one(c.St, I64(int64(len(c.St.writes))))
		}
		e.intr[pp+".ndWritesSince"] = func(e *Engine, c *CallCtx) []Outcome {
			m, ok := c.St.Conc(c.Args[0].(*Term))
			if !ok {
				unsupported("ndWritesSince mark must be concrete")
			}
			n := 0
			var sites []string
			for _, w := range c.St.writes[int(m.Int()):] {
				if strings.Contains(w.Site, "@zz_verif") {
					continue // harness / stub bookkeeping
				}
				n++
				sites = append(sites, w.Site)
			}
			if n > 0 {
				if e.extra == nil {
					e.extra = map[string]interface{}{}
				}
				e.extra["shared_writes"] = sites
			}
			return one(c.St, I64(int64(n)))
		}
		e.intr[pp+".ndPrefer"] = func(e *Engine, c *CallCtx) []Outcome {
			// a soft preference for counterexample models (never affects a verdict)
			t := c.Args[0].(*Term)
			if !t.IsConst() {
				e.prefs = append(e.prefs, t)
			}
			return one(c.St, nil)
		}
		e.intr[pp+".ndConcrete"] = func(e *Engine, c *CallCtx) []Outcome {
			t := c.Args[0].(*Term)
			if k, ok := c.St.Conc(t); ok {
				return one(c.St, k)
			}
			vals := e.enumValues(c.St, t, 64, c.Site)
			var outs []Outcome
			for i, v := range vals {
				st := c.St
				if i < len(vals)-1 {
					st = c.St.Fork()
				}
				st.Assume(Eq(t, v))
				st.eqs[t.ID] = v
				outs = append(outs, Outcome{St: st, Ret: v})
			}
			return outs
		}
		e.intr[pp+".ndSymbolic"] = func(e *Engine, c *CallCtx) []Outcome { return one(c.St, True) }
		e.intr[pp+".verifReg"] = func(e *Engine, c *CallCtx) []Outcome { return one(c.St, True) }
	}
	e.intr["errors.New"] = intrErrorsNew
	e.intr["fmt.Errorf"] = intrErrorf
	e.intr["errors.Is"] = intrErrorsIs
	e.intr["errors.Unwrap"] = intrErrorsUnwrap
	e.intr["errors.As"] = intrErrorsAs
	e.intr["errors.Join"] = intrErrorsJoin
	e.intr["fmt.Sprintf"] = func(e *Engine, c *CallCtx) []Outcome { return one(c.St, e.opaqueString(c.St, "sprintf")) }
	e.intr["fmt.Sprint"] = func(e *Engine, c *CallCtx) []Outcome { return one(c.St, e.opaqueString(c.St, "sprint")) }
	e.intr["invoke:*errors.errorString.Error"] = func(e *Engine, c *CallCtx) []Outcome {
		return one(c.St, e.opaqueString(c.St, "errmsg"))
	}
	e.intr["invoke:*fmt.wrapError.Error"] = e.intr["invoke:*errors.errorString.Error"]
	e.intr["invoke:*errors.joinError.Error"] = e.intr["invoke:*errors.errorString.Error"]
	e.intr["regexp.MustCompile"] = intrRegexpMustCompile
	e.intr["(*regexp.Regexp).MatchString"] = intrRegexpMatchString
	e.intr["strings.Split"] = intrStringsSplit
	e.intr["strings.Contains"] = intrStringsContains
	e.intr["strings.HasPrefix"] = intrStringsHasPrefix
	// the hash functions COSE algorithms need are linked into every binary that imports go-cose
	e.intr["(crypto.Hash).Available"] = func(e *Engine, c *CallCtx) []Outcome { return one(c.St, True) }
	e.intr["strconv.Atoi"] = intrAtoi
	e.intr["strconv.ParseInt"] = intrParseInt
	e.intr["unicode/utf8.ValidString"] = func(e *Engine, c *CallCtx) []Outcome {
		a := c.Args[0].(VString)
		if as, ok := a.Concrete(); ok {
			return one(c.St, BoolC(utf8.ValidString(as)))
		}
		return one(c.St, utf8Valid(a))
	}
	e.intr["strings.EqualFold"] = func(e *Engine, c *CallCtx) []Outcome {
		a, b := c.Args[0].(VString), c.Args[1].(VString)
		if as, ok := a.Concrete(); ok {
			if bs, ok := b.Concrete(); ok {
				return one(c.St, BoolC(strings.EqualFold(as, bs)))
			}
		}
		// ASCII case folding, byte-wise (non-ASCII bytes must be identical: Unicode-only folds are outside the model)
		return one(c.St, StringEq(asciiMap(a, false), asciiMap(b, false)))
	}
	e.intr["strings.ToLower"] = func(e *Engine, c *CallCtx) []Outcome {
		a := c.Args[0].(VString)
		if as, ok := a.Concrete(); ok {
			return one(c.St, ConstString(strings.ToLower(as)))
		}
		return one(c.St, asciiMap(a, false))
	}
	e.intr["strings.ToUpper"] = func(e *Engine, c *CallCtx) []Outcome {
		a := c.Args[0].(VString)
		if as, ok := a.Concrete(); ok {
			return one(c.St, ConstString(strings.ToUpper(as)))
		}
		return one(c.St, asciiMap(a, true))
	}
	e.intr["strings.TrimSpace"] = func(e *Engine, c *CallCtx) []Outcome {
		a := c.Args[0].(VString)
		if as, ok := a.Concrete(); ok {
			return one(c.St, ConstString(strings.TrimSpace(as)))
		}
		unsupported("strings.TrimSpace on a symbolic string at %s", c.Site)
		return nil
	}
	e.intr["strconv.Itoa"] = func(e *Engine, c *CallCtx) []Outcome {
		if v, ok := c.St.Conc(c.Args[0].(*Term)); ok {
			return one(c.St, ConstString(strconv.Itoa(int(v.Int()))))
		}
		return one(c.St, e.opaqueString(c.St, "itoa"))
	}
	e.intr["(encoding/binary.bigEndian).Uint16"] = func(e *Engine, c *CallCtx) []Outcome { return e.beRead(c, 2) }
	e.intr["(encoding/binary.bigEndian).Uint32"] = func(e *Engine, c *CallCtx) []Outcome { return e.beRead(c, 4) }
	e.intr["(encoding/binary.bigEndian).Uint64"] = func(e *Engine, c *CallCtx) []Outcome { return e.beRead(c, 8) }
	e.intr["(encoding/binary.bigEndian).AppendUint16"] = func(e *Engine, c *CallCtx) []Outcome { return e.beAppend(c, 2) }
	e.intr["(encoding/binary.bigEndian).AppendUint32"] = func(e *Engine, c *CallCtx) []Outcome { return e.beAppend(c, 4) }
	e.intr["bytes.Equal"] = intrBytesEqual
	registerReflect(e)
	registerCodecs(e)
	registerCose(e)
	registerGhost(e)
	registerEat(e)
	registerJSONLib(e)
}

// ---------- nd ----------

func (e *Engine) ndName(c *CallCtx, v Value) string {
	s, ok := v.(VString).Concrete()
	if !ok {
		unsupported("nd variable name must be concrete at %s", c.Site)
	}
	return s
}

func (e *Engine) ndScalar(c *CallCtx, kind string, w int, signed bool) Value {
	name := e.ndName(c, c.Args[0])
	if v, ok := e.nd[name]; ok {
		return v.T
	}
	var t *Term
	if kind == "bool" {
		t = Var(name, BoolSort)
	} else {
		t = Var(name, BV(w))
	}
	e.nd[name] = &NDVar{Name: name, Kind: kind, T: t, W: w, Sign: signed}
	e.ndOrder = append(e.ndOrder, name)
	return t
}

func intrNdBytes(e *Engine, c *CallCtx) []Outcome {
	name := e.ndName(c, c.Args[0])
	v, ok := e.nd[name]
	if !ok {
		v = &NDVar{Name: name, Kind: "bytes", Len: Var(name+".len", BV(64)), Arr: Var(name+".arr", ArrSort)}
		e.nd[name] = v
		e.ndOrder = append(e.ndOrder, name)
	}
	c.St.Assume(And(CmpBV(OSLe, I64(0), v.Len), CmpBV(OSLt, v.Len, I64(1<<31))))
	s := e.newBytes(c.St, v.Arr, v.Len, "nd:"+name)
	return one(c.St, s)
}

func intrNdString(e *Engine, c *CallCtx) []Outcome {
	name := e.ndName(c, c.Args[0])
	mx, ok := c.St.Conc(c.Args[1].(*Term))
	if !ok {
		unsupported("ndString max must be concrete")
	}
	v, ok := e.nd[name]
	if !ok {
		n := int(mx.Int())
		v = &NDVar{Name: name, Kind: "string", Len: Var(name+".len", BV(64))}
		for i := 0; i < n; i++ {
			v.B = append(v.B, Var(fmt.Sprintf("%s.b%d", name, i), BV(8)))
		}
		e.nd[name] = v
		e.ndOrder = append(e.ndOrder, name)
	}
	c.St.Assume(And(CmpBV(OSLe, I64(0), v.Len), CmpBV(OSLe, v.Len, I64(int64(len(v.B))))))
	return one(c.St, VString{Len: v.Len, B: v.B})
}

func intrNdAssume(e *Engine, c *CallCtx) []Outcome {
	cond := c.Args[0].(*Term)
	if e.feasible(c.St, cond) == Unsat {
		return nil
	}
	c.St.Assume(cond)
	return one(c.St, nil)
}

func intrNdName(e *Engine, c *CallCtx) []Outcome {
	// ndName(prefix, i) -> prefix + "[" + i + "]"; a symbolic i splits the path per value
	p, _ := c.Args[0].(VString).Concrete()
	t := c.Args[1].(*Term)
	if i, ok := c.St.Conc(t); ok {
		return one(c.St, ConstString(fmt.Sprintf("%s[%d]", p, i.Int())))
	}
	vals := e.enumValues(c.St, t, 16, c.Site)
	var outs []Outcome
	for k, v := range vals {
		st := c.St
		if k < len(vals)-1 {
			st = c.St.Fork()
		}
		st.Assume(Eq(t, v))
		st.eqs[t.ID] = v
		outs = append(outs, Outcome{St: st, Ret: ConstString(fmt.Sprintf("%s[%d]", p, v.Int()))})
	}
	return outs
}

func intrNdOpt(e *Engine, c *CallCtx) []Outcome {
	name := e.ndName(c, c.Args[0])
	p := c.Args[1].(VPtr)
	b := e.ndScalar(&CallCtx{St: c.St, Args: []Value{ConstString(name)}, Site: c.Site}, "bool", 0, false).(*Term)
	// present iff b
	r := p
	r.Nil = Or(p.Nil, Not(b))
	return one(c.St, r)
}

func intrNdTry(e *Engine, c *CallCtx) []Outcome {
	outs := e.callValue(c.St, c.Args[0], nil, c.Instr, c.Depth+1)
	res := make([]Outcome, 0, len(outs))
	for _, o := range outs {
		if o.Panic != nil {
			res = append(res, Outcome{St: o.St, Ret: True})
		} else {
			res = append(res, Outcome{St: o.St, Ret: False})
		}
	}
	return res
}

func (e *Engine) eqBound() int {
	if b, ok := e.params["eqbound"]; ok && b > 0 {
		return b
	}
	return 80
}

// enumValues lists every feasible value of t on this path (at most limit, else unsupported).
func (e *Engine) enumValues(st *State, t *Term, limit int, site string) []*Term {
	var vals, blocks []*Term
	for len(vals) <= limit {
		as := append(append([]*Term(nil), st.pc...), blocks...)
		as = append(as, e.exclude...)
		r := e.solver.Check(as)
		if r == Unsat {
			break
		}
		if r == Unknown {
			unsupported("solver unknown while enumerating values at %s", site)
		}
		vs, err := e.solver.Values([]*Term{t})
		if err != nil {
			unsupported("model read failed while enumerating values at %s", site)
		}
		c := BVC(vs[0], t.S.W)
		vals = append(vals, c)
		blocks = append(blocks, Not(Eq(t, c)))
	}
	if len(vals) > limit {
		unsupported("more than %d feasible values at %s", limit, site)
	}
	return vals
}

// ---------- errors / fmt ----------

func (e *Engine) newError(st *State, kind string, ve VErr, site string) VIface {
	nt := e.fakeNamed(kind)
	id := st.Alloc(&Object{Kind: KCell, Typ: nt, Val: ve, Site: site})
	return VIface{Nil: False, Dyn: types.NewPointer(nt), Val: VPtr{Nil: False, Obj: id}}
}

func (e *Engine) opaqueString(st *State, tag string) VString {
	// an unconstrained short string; contents are never compared by the properties
	n := 4
	ln := Fresh("opaque."+tag+".len", BV(64))
	st.Assume(And(CmpBV(OSLe, I64(0), ln), CmpBV(OSLe, ln, I64(int64(n)))))
	bs := make([]*Term, n)
	for i := range bs {
		bs[i] = Fresh("opaque."+tag+".b", BV(8))
	}
	return VString{Len: ln, B: bs}
}

func intrErrorsNew(e *Engine, c *CallCtx) []Outcome {
	msg, _ := c.Args[0].(VString).Concrete()
	return one(c.St, e.newError(c.St, "errors.errorString", VErr{Msg: msg}, c.Site))
}

// parseVerbs returns, for each operand index, the verb consuming it.
func parseVerbs(format string) []byte {
	var verbs []byte
	for i := 0; i < len(format); i++ {
		if format[i] != '%' {
			continue
		}
		i++
		for i < len(format) && strings.IndexByte("+-# 0123456789.", format[i]) >= 0 {
			i++
		}
		if i >= len(format) {
			break
		}
		if format[i] == '%' {
			continue
		}
		if format[i] == '[' {
			return nil // explicit argument indexes: not modelled
		}
		verbs = append(verbs, format[i])
	}
	return verbs
}

func intrErrorf(e *Engine, c *CallCtx) []Outcome {
	format, ok := c.Args[0].(VString).Concrete()
	if !ok {
		unsupported("fmt.Errorf with non-constant format at %s", c.Site)
	}
	verbs := parseVerbs(format)
	if verbs == nil && strings.Contains(format, "%[") {
		unsupported("fmt.Errorf with indexed verbs at %s", c.Site)
	}
	var ops []Value
	if len(c.Args) > 1 {
		if sl, ok := c.Args[1].(VSlice); ok && !sl.Nil.IsTrue() {
			ops = e.sliceElems(c.St, sl)
		}
	}
	var wraps []Value
	for i, vb := range verbs {
		if vb == 'w' && i < len(ops) {
			if iv, ok := ops[i].(VIface); ok {
				// operand must itself be an error; a nil %w operand wraps nothing
				if iv.Nil.IsTrue() {
					continue
				}
				wraps = append(wraps, iv)
			}
		}
	}
	kind := "fmt.wrapError"
	if len(wraps) == 0 {
		kind = "fmt.fmtError" // plain *errors.errorString in Go; distinct fake type is fine
	}
	if len(wraps) > 1 {
		kind = "fmt.wrapErrors"
	}
	return one(c.St, e.newError(c.St, kind, VErr{Wraps: wraps, Msg: format}, c.Site))
}

// errIs computes errors.Is(err, target) as a term by walking the modelled chain.
func (e *Engine) errIs(st *State, err, target VIface, depth int) *Term {
	if depth > 12 {
		unsupported("error chain too deep")
	}
	if err.Nil.IsTrue() {
		return And(err.Nil, target.Nil)
	}
	here := e.valEq(err, target)
	rest := False
	if p, ok := err.Val.(VPtr); ok && !p.Nil.IsTrue() {
		if o, ok := st.heap[p.Obj]; ok {
			if ve, ok := getPath(o.Val, p.Path).(VErr); ok {
				for _, w := range ve.Wraps {
					rest = Or(rest, e.errIs(st, w.(VIface), target, depth+1))
				}
			} else {
				rest = e.errIsUser(st, err, target, depth)
			}
		}
	} else if err.Dyn != nil {
		rest = e.errIsUser(st, err, target, depth)
	}
	return Or(here, And(Not(err.Nil), rest))
}

// errIsUser follows a user-defined Unwrap() error method (executed symbolically).
func (e *Engine) errIsUser(st *State, err, target VIface, depth int) *Term {
	if e.hasMethod(err.Dyn, "Is") {
		unsupported("errors.Is through user-defined Is on %s", err.Dyn)
	}
	if !e.hasMethod(err.Dyn, "Unwrap") {
		return False
	}
	ms := e.prog.MethodSets.MethodSet(err.Dyn)
	var sel *types.Selection
	for i := 0; i < ms.Len(); i++ {
		if ms.At(i).Obj().Name() == "Unwrap" {
			sel = ms.At(i)
		}
	}
	fn := e.prog.MethodValue(sel)
	if fn == nil || fn.Signature.Results().Len() != 1 || !types.Identical(fn.Signature.Results().At(0).Type(), errorType) {
		unsupported("errors.Is through Unwrap of unusual shape on %s", err.Dyn)
	}
	outs := e.CallFn(st, fn, []Value{err.Val}, nil, depth+20)
	if len(outs) != 1 || outs[0].Panic != nil || outs[0].St != st {
		unsupported("errors.Is: user Unwrap on %s forks or panics", err.Dyn)
	}
	inner, ok := outs[0].Ret.(VIface)
	if !ok {
		unsupported("errors.Is: user Unwrap returned %T", outs[0].Ret)
	}
	if inner.Nil.IsTrue() {
		return False
	}
	return And(Not(inner.Nil), e.errIs(st, inner, target, depth+1))
}

func (e *Engine) hasMethod(t types.Type, name string) bool {
	ms := e.prog.MethodSets.MethodSet(t)
	for i := 0; i < ms.Len(); i++ {
		if ms.At(i).Obj().Name() == name {
			return true
		}
	}
	return false
}

func intrErrorsIs(e *Engine, c *CallCtx) []Outcome {
	err := c.Args[0].(VIface)
	target := c.Args[1].(VIface)
	return one(c.St, e.errIs(c.St, err, target, 0))
}

func intrErrorsUnwrap(e *Engine, c *CallCtx) []Outcome {
	err := c.Args[0].(VIface)
	if err.Nil.IsTrue() {
		return one(c.St, NilIface())
	}
	var outs []Outcome
	st := c.St
	if !err.Nil.IsFalse() {
		t, f := e.branch(st, err.Nil)
		if t {
			s2 := st
			if f {
				s2 = st.Fork()
			}
			s2.Assume(err.Nil)
			outs = append(outs, Outcome{St: s2, Ret: NilIface()})
		}
		if !f {
			return outs
		}
		st.Assume(Not(err.Nil))
	}
	return append(outs, Outcome{St: st, Ret: e.unwrapOnce(st, err)})
}

// unwrapOnce: what errors.Unwrap returns for a non-nil error (the Unwrap() error method only;
// multi-wrapping errors have no such method)
func (e *Engine) unwrapOnce(st *State, err VIface) VIface {
	if p, ok := err.Val.(VPtr); ok {
		if o, ok := st.heap[p.Obj]; ok {
			if ve, ok := getPath(o.Val, p.Path).(VErr); ok {
				if len(ve.Wraps) == 1 && o.Typ != nil && !strings.Contains(o.Typ.String(), "wrapErrors") && !strings.Contains(o.Typ.String(), "joinError") {
					return ve.Wraps[0].(VIface)
				}
				return NilIface()
			}
		}
	}
	if err.Dyn == nil || !e.hasMethod(err.Dyn, "Unwrap") {
		return NilIface()
	}
	ms := e.prog.MethodSets.MethodSet(err.Dyn)
	var sel *types.Selection
	for i := 0; i < ms.Len(); i++ {
		if ms.At(i).Obj().Name() == "Unwrap" {
			sel = ms.At(i)
		}
	}
	fn := e.prog.MethodValue(sel)
	if fn == nil || fn.Signature.Results().Len() != 1 || !types.Identical(fn.Signature.Results().At(0).Type(), errorType) {
		return NilIface() // Unwrap() []error is not followed by errors.Unwrap
	}
	outs := e.CallFn(st, fn, []Value{err.Val}, nil, 30)
	if len(outs) != 1 || outs[0].Panic != nil || outs[0].St != st {
		unsupported("errors.Unwrap: user Unwrap on %s forks or panics", err.Dyn)
	}
	inner, ok := outs[0].Ret.(VIface)
	if !ok {
		unsupported("errors.Unwrap: user Unwrap returned %T", outs[0].Ret)
	}
	return inner
}

// errors.As(err, target): target is a non-nil pointer to a variable of a concrete error type
// (or interface type); the chain is walked like errors.Is does. The dynamic types along a
// modelled chain are concrete, so the result is decided per chain element without forking.
func intrErrorsAs(e *Engine, c *CallCtx) []Outcome {
	err := c.Args[0].(VIface)
	tgt := c.Args[1].(VIface)
	tp, ok := tgt.Val.(VPtr)
	if !ok || !tgt.Nil.IsFalse() || !tp.Nil.IsFalse() {
		unsupported("errors.As with a target that is not a definite pointer at %s", c.Site)
	}
	pt, ok := tgt.Dyn.Underlying().(*types.Pointer)
	if !ok {
		unsupported("errors.As target type %s", tgt.Dyn)
	}
	want := pt.Elem()
	var pre []Outcome
	if !err.Nil.IsFalse() && !err.Nil.IsTrue() {
		t, f := e.branch(c.St, err.Nil)
		if t {
			s2 := c.St
			if f {
				s2 = c.St.Fork()
			}
			s2.Assume(err.Nil)
			pre = append(pre, Outcome{St: s2, Ret: False})
		}
		if !f {
			return pre
		}
		c.St.Assume(Not(err.Nil))
		err.Nil = False
	}
	var walk func(x VIface, depth int) bool
	walk = func(x VIface, depth int) bool {
		if depth > 12 || x.Nil.IsTrue() {
			return false
		}
		if !x.Nil.IsFalse() {
			unsupported("errors.As through a maybe-nil link at %s", c.Site)
		}
		if x.Dyn != nil {
			if e.hasMethod(x.Dyn, "As") {
				unsupported("errors.As through user-defined As on %s", x.Dyn)
			}
			match := types.Identical(x.Dyn, want)
			if it, isI := want.Underlying().(*types.Interface); isI && !match {
				match = types.Implements(x.Dyn, it)
			}
			if match {
				var v Value = x.Val
				if _, isI := want.Underlying().(*types.Interface); isI {
					v = x
				}
				e.store(c.St, tp, v, c.Site)
				return true
			}
		}
		if p, ok := x.Val.(VPtr); ok {
			if o, ok := c.St.heap[p.Obj]; ok {
				if ve, ok := getPath(o.Val, p.Path).(VErr); ok {
					for _, w := range ve.Wraps {
						if walk(w.(VIface), depth+1) {
							return true
						}
					}
					return false
				}
			}
		}
		return walk(e.unwrapOnce(c.St, x), depth+1)
	}
	return append(pre, Outcome{St: c.St, Ret: BoolC(walk(err, 0))})
}

func intrErrorsJoin(e *Engine, c *CallCtx) []Outcome {
	var ops []Value
	if sl, ok := c.Args[0].(VSlice); ok && !sl.Nil.IsTrue() {
		ops = e.sliceElems(c.St, sl)
	}
	var wraps []Value
	for _, o := range ops {
		iv := o.(VIface)
		nl := c.St.Simp(iv.Nil)
		if !nl.IsConst() {
			t, f := e.branch(c.St, nl)
			if t && f {
				unsupported("errors.Join with maybe-nil operand")
			}
			nl = BoolC(t)
		}
		if nl.IsTrue() {
			continue
		}
		iv.Nil = False
		wraps = append(wraps, iv)
	}
	if len(wraps) == 0 {
		return one(c.St, NilIface())
	}
	return one(c.St, e.newError(c.St, "errors.joinError", VErr{Wraps: wraps, Msg: "join"}, c.Site))
}

// ---------- strings / strconv / binary ----------

func intrStringsSplit(e *Engine, c *CallCtx) []Outcome {
	s, ok1 := c.Args[0].(VString).Concrete()
	sep, ok2 := c.Args[1].(VString).Concrete()
	if !ok1 || !ok2 {
		unsupported("strings.Split on symbolic strings at %s", c.Site)
	}
	parts := strings.Split(s, sep)
	es := make([]Value, len(parts))
	for i, p := range parts {
		es[i] = ConstString(p)
	}
	return one(c.St, e.newSlice(c.St, types.Typ[types.String], es, len(es), c.Site))
}

// utf8Valid: RFC 3629 well-formedness of a bounded byte string as a term (exact): a DFA whose
// state after each byte is tracked symbolically (0 = at a character boundary).
func utf8Valid(s VString) *Term {
	in := func(b *Term, lo, hi uint64) *Term {
		return And(CmpBV(OULe, BVC(lo, 8), b), CmpBV(OULe, b, BVC(hi, 8)))
	}
	// states: 0 boundary; 1,2,3 = that many plain continuation bytes still expected;
	// 4 = after E0 (next A0..BF, then 1 more); 5 = after ED (next 80..9F, then 1 more);
	// 6 = after F0 (next 90..BF, then 2 more); 7 = after F4 (next 80..8F, then 2 more); 8 = invalid
	st := BVC(0, 4)
	K := func(n uint64) *Term { return BVC(n, 4) }
	for i, b := range s.B {
		active := CmpBV(OSLt, I64(int64(i)), s.Len)
		cont := in(b, 0x80, 0xbf)
		next0 := Ite(in(b, 0x00, 0x7f), K(0),
			Ite(in(b, 0xc2, 0xdf), K(1),
				Ite(Eq(b, BVC(0xe0, 8)), K(4),
					Ite(Or(in(b, 0xe1, 0xec), in(b, 0xee, 0xef)), K(2),
						Ite(Eq(b, BVC(0xed, 8)), K(5),
							Ite(Eq(b, BVC(0xf0, 8)), K(6),
								Ite(in(b, 0xf1, 0xf3), K(3),
									Ite(Eq(b, BVC(0xf4, 8)), K(7), K(8)))))))))
		nxt := Ite(Eq(st, K(0)), next0,
			Ite(Eq(st, K(1)), Ite(cont, K(0), K(8)),
				Ite(Eq(st, K(2)), Ite(cont, K(1), K(8)),
					Ite(Eq(st, K(3)), Ite(cont, K(2), K(8)),
						Ite(Eq(st, K(4)), Ite(in(b, 0xa0, 0xbf), K(1), K(8)),
							Ite(Eq(st, K(5)), Ite(in(b, 0x80, 0x9f), K(1), K(8)),
								Ite(Eq(st, K(6)), Ite(in(b, 0x90, 0xbf), K(2), K(8)),
									Ite(Eq(st, K(7)), Ite(in(b, 0x80, 0x8f), K(2), K(8)), K(8)))))))))
		st = Ite(active, nxt, st)
	}
	return Eq(st, K(0))
}

// asciiMap lower-cases (upper=false) or upper-cases the ASCII letters of s, byte-wise.
func asciiMap(s VString, upper bool) VString {
	bs := make([]*Term, len(s.B))
	for i, b := range s.B {
		if upper {
			isL := And(CmpBV(OULe, BVC('a', 8), b), CmpBV(OULe, b, BVC('z', 8)))
			bs[i] = Ite(isL, BinBV(OSub, b, BVC(32, 8)), b)
		} else {
			isU := And(CmpBV(OULe, BVC('A', 8), b), CmpBV(OULe, b, BVC('Z', 8)))
			bs[i] = Ite(isU, BinBV(OAdd, b, BVC(32, 8)), b)
		}
	}
	return VString{Len: s.Len, B: bs}
}

func containsAt(s VString, sub string, pos int) *Term {
	conds := []*Term{CmpBV(OSLe, I64(int64(pos+len(sub))), s.Len)}
	for j := 0; j < len(sub); j++ {
		if pos+j >= len(s.B) {
			return False
		}
		conds = append(conds, Eq(s.B[pos+j], BVC(uint64(sub[j]), 8)))
	}
	return And(conds...)
}

func intrStringsContains(e *Engine, c *CallCtx) []Outcome {
	s := c.Args[0].(VString)
	sub, ok := c.Args[1].(VString).Concrete()
	if !ok {
		unsupported("strings.Contains with symbolic needle")
	}
	if cs, ok := s.Concrete(); ok {
		return one(c.St, BoolC(strings.Contains(cs, sub)))
	}
	r := False
	for p := 0; p+len(sub) <= len(s.B); p++ {
		r = Or(r, containsAt(s, sub, p))
	}
	if len(sub) == 0 {
		r = True
	}
	return one(c.St, r)
}

func intrStringsHasPrefix(e *Engine, c *CallCtx) []Outcome {
	s := c.Args[0].(VString)
	sub, ok := c.Args[1].(VString).Concrete()
	if !ok {
		unsupported("strings.HasPrefix with symbolic prefix")
	}
	return one(c.St, containsAt(s, sub, 0))
}

// parseIntSym: strconv.ParseInt(s, 10, 64) / Atoi on a bounded symbolic string: forks into the
// syntax-error outcome and the success outcome (optional sign, then one or more decimal
// digits; at most 18 digits so that the value cannot overflow)
func (e *Engine) parseIntSym(c *CallCtx, vs VString) []Outcome {
	if n, ok := c.St.Conc(vs.Len); ok && int(n.Int()) <= len(vs.B) {
		vs = VString{Len: n, B: vs.B[:n.Int()]} // the path knows the length
	}
	if len(vs.B) > 19 {
		unsupported("strconv.ParseInt on a symbolic string longer than 19 bytes at %s", c.Site)
	}
	if len(vs.B) == 0 {
		return one(c.St, VTuple{Elems: []Value{I64(0), e.newError(c.St, "strconv.NumError", VErr{Msg: "syntax"}, c.Site)}})
	}
	isDigit := func(b *Term) *Term {
		return And(Not(CmpBV(OULt, b, BVC('0', 8))), Not(CmpBV(OULt, BVC('9', 8), b)))
	}
	signed := Or(Eq(vs.B[0], BVC('+', 8)), Eq(vs.B[0], BVC('-', 8)))
	neg := Eq(vs.B[0], BVC('-', 8))
	okc := []*Term{CmpBV(OSLt, I64(0), vs.Len), Or(Not(signed), CmpBV(OSLt, I64(1), vs.Len)), Not(CmpBV(OSLt, I64(18), vs.Len))}
	acc := I64(0)
	for i, b := range vs.B {
		in := CmpBV(OSLt, I64(int64(i)), vs.Len)
		digitPos := in
		if i == 0 {
			digitPos = And(in, Not(signed))
		}
		okc = append(okc, Or(Not(digitPos), isDigit(b)))
		d := ZExt(BinBV(OSub, b, BVC('0', 8)), 64)
		acc = Ite(digitPos, BinBV(OAdd, BinBV(OMul, acc, I64(10)), d), acc)
	}
	val := Ite(And(signed, neg), BinBV(OSub, I64(0), acc), acc)
	ok := And(okc...)
	t, f := e.branch(c.St, ok)
	var outs []Outcome
	if f {
		s2 := c.St
		if t {
			s2 = c.St.Fork()
		}
		s2.Assume(Not(ok))
		outs = append(outs, Outcome{St: s2, Ret: VTuple{Elems: []Value{I64(0), e.newError(s2, "strconv.NumError", VErr{Msg: "syntax"}, c.Site)}}})
	}
	if t {
		c.St.Assume(ok)
		outs = append(outs, Outcome{St: c.St, Ret: VTuple{Elems: []Value{val, NilIface()}}})
	}
	return outs
}

func intrParseInt(e *Engine, c *CallCtx) []Outcome {
	base, ok1 := c.Args[1].(*Term)
	bits, ok2 := c.Args[2].(*Term)
	if !ok1 || !ok2 || !base.IsConst() || !bits.IsConst() || base.Int() != 10 || (bits.Int() != 64 && bits.Int() != 0) {
		unsupported("strconv.ParseInt with base/bitSize other than 10/64 at %s", c.Site)
	}
	vs := c.Args[0].(VString)
	if s, ok := vs.Concrete(); ok {
		v, err := strconv.ParseInt(s, 10, 64)
		if err != nil {
			return one(c.St, VTuple{Elems: []Value{I64(0), e.newError(c.St, "strconv.NumError", VErr{Msg: err.Error()}, c.Site)}})
		}
		return one(c.St, VTuple{Elems: []Value{I64(v), NilIface()}})
	}
	return e.parseIntSym(c, vs)
}

func intrAtoi(e *Engine, c *CallCtx) []Outcome {
	s, ok := c.Args[0].(VString).Concrete()
	if !ok {
		return e.parseIntSym(c, c.Args[0].(VString))
	}
	v, err := strconv.Atoi(s)
	if err != nil {
		return one(c.St, VTuple{Elems: []Value{I64(0), e.newError(c.St, "strconv.NumError", VErr{Msg: err.Error()}, c.Site)}})
	}
	return one(c.St, VTuple{Elems: []Value{I64(int64(v)), NilIface()}})
}

func (e *Engine) beRead(c *CallCtx, n int) []Outcome {
	sl := c.Args[len(c.Args)-1].(VSlice)
	var outs []Outcome
	short := CmpBV(OSLt, sl.Len, I64(int64(n)))
	if e.feasible(c.St, short) != Unsat {
		ps := c.St.Fork()
		ps.Assume(short)
		outs = append(outs, Outcome{St: ps, Panic: &PanicInfo{Kind: "index-out-of-range", Site: c.Site}})
	}
	if e.feasible(c.St, Not(short)) == Unsat {
		return outs
	}
	c.St.Assume(Not(short))
	arr := c.St.Obj(sl.Obj).Arr
	var v *Term
	for i := 0; i < n; i++ {
		b := Select(arr, BinBV(OAdd, sl.Off, I64(int64(i))))
		if v == nil {
			v = b
		} else {
			v = Concat(v, b)
		}
	}
	return append(outs, Outcome{St: c.St, Ret: v})
}

func (e *Engine) beAppend(c *CallCtx, n int) []Outcome {
	sl := c.Args[len(c.Args)-2].(VSlice)
	v := c.Args[len(c.Args)-1].(*Term)
	var arr *Term
	if sl.Obj == 0 {
		arr = ConstArr(0)
	} else {
		if off, ok := c.St.Conc(sl.Off); !ok || off.Int() != 0 {
			unsupported("AppendUintN on offset slice")
		}
		arr = c.St.Obj(sl.Obj).Arr
	}
	for i := 0; i < n; i++ {
		hi := (n-i)*8 - 1
		arr = Store(arr, BinBV(OAdd, sl.Len, I64(int64(i))), Extract(v, hi, hi-7))
	}
	return one(c.St, e.newBytes(c.St, arr, BinBV(OAdd, sl.Len, I64(int64(n))), c.Site))
}

func intrBytesEqual(e *Engine, c *CallCtx) []Outcome {
	a := c.Args[0].(VSlice)
	b := c.Args[1].(VSlice)
	return one(c.St, e.bytesEq(c.St, a, b, 80))
}

// bytesEq: content equality of two byte slices; exact when a length is concrete (or both ≤ bound).
func (e *Engine) bytesEq(st *State, a, b VSlice, bound int) *Term {
	n := -1
	if c, ok := st.Conc(a.Len); ok {
		n = int(c.Int())
	} else if c, ok := st.Conc(b.Len); ok {
		n = int(c.Int())
	}
	lenEq := Eq(a.Len, b.Len)
	if a.Obj == 0 || b.Obj == 0 {
		return And(Eq(a.Len, I64(0)), Eq(b.Len, I64(0)))
	}
	aa, ba := st.Obj(a.Obj).Arr, st.Obj(b.Obj).Arr
	// same backing store at the same offset: equal whatever the length
	sameWindow := False
	if aa == ba {
		sameWindow = Eq(a.Off, b.Off)
		if sameWindow.IsTrue() {
			return lenEq
		}
	}
	lim := n
	var conds []*Term
	if n < 0 {
		lim = bound
		conds = append(conds, Not(CmpBV(OSLt, I64(int64(bound)), a.Len)))
	}
	for i := 0; i < lim; i++ {
		eq := Eq(Select(aa, BinBV(OAdd, a.Off, I64(int64(i)))), Select(ba, BinBV(OAdd, b.Off, I64(int64(i)))))
		if n < 0 {
			eq = Or(Not(CmpBV(OSLt, I64(int64(i)), a.Len)), eq)
		}
		conds = append(conds, eq)
	}
	return And(lenEq, Or(sameWindow, And(conds...)))
}

// ---------- regexp: Go's compiled Pike program run symbolically ----------

type regexProg struct {
	pat  string
	prog *syntax.Prog
}

func intrRegexpMustCompile(e *Engine, c *CallCtx) []Outcome {
	pat, ok := c.Args[0].(VString).Concrete()
	if !ok {
		unsupported("regexp.MustCompile with non-constant pattern")
	}
	rp, ok := e.regexCache[pat]
	if !ok {
		re, err := syntax.Parse(pat, syntax.Perl)
		if err != nil {
			return []Outcome{{St: c.St, Panic: &PanicInfo{Kind: "explicit-panic", Site: c.Site}}}
		}
		prog, err := syntax.Compile(re.Simplify())
		if err != nil {
			return []Outcome{{St: c.St, Panic: &PanicInfo{Kind: "explicit-panic", Site: c.Site}}}
		}
		rp = &regexProg{pat: pat, prog: prog}
		e.regexCache[pat] = rp
	}
	id := c.St.Alloc(&Object{Kind: KCell, Typ: e.fakeNamed("regexp.Regexp"), Val: VOpaque{Kind: "regexp", Data: rp}, Site: c.Site})
	return one(c.St, VPtr{Nil: False, Obj: id})
}

func intrRegexpMatchString(e *Engine, c *CallCtx) []Outcome {
	p := c.Args[0].(VPtr)
	if !p.Nil.IsFalse() {
		unsupported("MatchString on maybe-nil regexp")
	}
	rp := e.load(c.St, p).(VOpaque).Data.(*regexProg)
	s := c.Args[1].(VString)
	if cs, ok := s.Concrete(); ok {
		return one(c.St, BoolC(pikeConcrete(rp.prog, cs)))
	}
	return one(c.St, e.pikeSymbolic(rp, s))
}

// byteClass returns the condition under which byte b matches the rune instruction; only
// ASCII-subset classes are supported exactly.
func instByteCond(in *syntax.Inst, b *Term) *Term {
	switch in.Op {
	case syntax.InstRune1:
		r := in.Rune[0]
		if r >= 0x80 {
			unsupported("regexp: non-ASCII literal")
		}
		if syntax.Flags(in.Arg)&syntax.FoldCase != 0 {
			unsupported("regexp: case folding")
		}
		return Eq(b, BVC(uint64(r), 8))
	case syntax.InstRune:
		if syntax.Flags(in.Arg)&syntax.FoldCase != 0 {
			unsupported("regexp: case folding")
		}
		cond := False
		for i := 0; i+1 < len(in.Rune); i += 2 {
			lo, hi := in.Rune[i], in.Rune[i+1]
			if hi >= 0x80 {
				unsupported("regexp: class containing non-ASCII runes")
			}
			cond = Or(cond, And(CmpBV(OULe, BVC(uint64(lo), 8), b), CmpBV(OULe, b, BVC(uint64(hi), 8))))
		}
		if len(in.Rune) == 1 {
			if in.Rune[0] >= 0x80 {
				unsupported("regexp: non-ASCII literal")
			}
			cond = Eq(b, BVC(uint64(in.Rune[0]), 8))
		}
		return cond
	}
	unsupported("regexp: instruction %v not supported exactly (non-ASCII-subset class)", in.Op)
	return nil
}

func (e *Engine) pikeSymbolic(rp *regexProg, s VString) *Term {
	prog := rp.prog
	L := len(s.B)
	n := len(prog.Inst)
	// closure computation: reach[pc] conditions at a position
	matched := False
	cur := make([]*Term, n)
	for i := range cur {
		cur[i] = False
	}
	var add func(set []*Term, pcx int, pos int, cond *Term, onPath map[int]bool)
	add = func(set []*Term, pcx int, pos int, cond *Term, onPath map[int]bool) {
		if cond.IsFalse() || onPath[pcx] {
			return
		}
		in := &prog.Inst[pcx]
		switch in.Op {
		case syntax.InstFail:
		case syntax.InstAlt, syntax.InstAltMatch:
			onPath[pcx] = true
			add(set, int(in.Out), pos, cond, onPath)
			add(set, int(in.Arg), pos, cond, onPath)
			delete(onPath, pcx)
		case syntax.InstNop, syntax.InstCapture:
			onPath[pcx] = true
			add(set, int(in.Out), pos, cond, onPath)
			delete(onPath, pcx)
		case syntax.InstEmptyWidth:
			ew := syntax.EmptyOp(in.Arg)
			c := cond
			if ew&syntax.EmptyBeginText != 0 {
				c = And(c, BoolC(pos == 0))
			}
			if ew&syntax.EmptyEndText != 0 {
				c = And(c, Eq(s.Len, I64(int64(pos))))
			}
			if ew&^(syntax.EmptyBeginText|syntax.EmptyEndText) != 0 {
				unsupported("regexp: empty-width assertion %v", ew)
			}
			onPath[pcx] = true
			add(set, int(in.Out), pos, c, onPath)
			delete(onPath, pcx)
		default:
			set[pcx] = Or(set[pcx], cond)
		}
	}
	for pos := 0; pos <= L; pos++ {
		// unanchored search: a new thread starts at every position within the string
		startCond := CmpBV(OSLe, I64(int64(pos)), s.Len)
		add(cur, prog.Start, pos, startCond, map[int]bool{})
		next := make([]*Term, n)
		for i := range next {
			next[i] = False
		}
		for pcx := 0; pcx < n; pcx++ {
			c := cur[pcx]
			if c.IsFalse() {
				continue
			}
			in := &prog.Inst[pcx]
			switch in.Op {
			case syntax.InstMatch:
				matched = Or(matched, c)
			case syntax.InstRune, syntax.InstRune1, syntax.InstRuneAny, syntax.InstRuneAnyNotNL:
				if pos < L {
					bc := instByteCond(in, s.B[pos])
					step := And(c, CmpBV(OSLt, I64(int64(pos)), s.Len), bc)
					add(next, int(in.Out), pos+1, step, map[int]bool{})
				}
			}
		}
		cur = next
	}
	return matched
}

// pikeConcrete: plain NFA simulation for concrete strings (same program).
func pikeConcrete(prog *syntax.Prog, s string) bool {
	n := len(prog.Inst)
	cur := make([]bool, n)
	var add func(set []bool, pcx int, pos int, onPath map[int]bool)
	add = func(set []bool, pcx int, pos int, onPath map[int]bool) {
		if onPath[pcx] {
			return
		}
		in := &prog.Inst[pcx]
		switch in.Op {
		case syntax.InstFail:
		case syntax.InstAlt, syntax.InstAltMatch:
			onPath[pcx] = true
			add(set, int(in.Out), pos, onPath)
			add(set, int(in.Arg), pos, onPath)
			delete(onPath, pcx)
		case syntax.InstNop, syntax.InstCapture:
			onPath[pcx] = true
			add(set, int(in.Out), pos, onPath)
			delete(onPath, pcx)
		case syntax.InstEmptyWidth:
			ew := syntax.EmptyOp(in.Arg)
			if ew&syntax.EmptyBeginText != 0 && pos != 0 {
				return
			}
			if ew&syntax.EmptyEndText != 0 && pos != len(s) {
				return
			}
			if ew&^(syntax.EmptyBeginText|syntax.EmptyEndText) != 0 {
				unsupported("regexp: empty-width assertion %v", ew)
			}
			onPath[pcx] = true
			add(set, int(in.Out), pos, onPath)
			delete(onPath, pcx)
		default:
			set[pcx] = true
		}
	}
	for pos := 0; pos <= len(s); pos++ {
		add(cur, prog.Start, pos, map[int]bool{})
		next := make([]bool, n)
		for pcx := 0; pcx < n; pcx++ {
			if !cur[pcx] {
				continue
			}
			in := &prog.Inst[pcx]
			switch in.Op {
			case syntax.InstMatch:
				return true
			case syntax.InstRune, syntax.InstRune1, syntax.InstRuneAny, syntax.InstRuneAnyNotNL:
				if pos < len(s) {
					b := BVC(uint64(s[pos]), 8)
					if instByteCond(in, b).IsTrue() {
						add(next, int(in.Out), pos+1, map[int]bool{})
					}
				}
			}
		}
		cur = next
	}
	return false
}

var _ = ssa.NaiveForm
