package main

// Solver process management: one persistent SMT-LIB2 solver, definitions at level 0,
// each query in its own push/pop frame.

import (
	"runtime"
	"bufio"
	"fmt"
	"io"
	"os"
	"os/exec"
	"strconv"
	"strings"
	"time"
)

type Result int

const (
	Unsat Result = iota
	Sat
	Unknown
)

func (r Result) String() string { return [...]string{"unsat", "sat", "unknown"}[r] }

type Solver struct {
	cmd      *exec.Cmd
	in       io.WriteCloser
	out      *bufio.Reader
	gen      int
	open     bool
	Queries  int
	NSat     int
	NUnsat   int
	NUnknown int
	Errors   []string
	Wall     time.Duration
	bin      string
	args     []string
	timeout  int
	log      *os.File
	cache    map[int]Result
	stack    []*Term   // conjuncts currently asserted, one push level each
	defs     [][]*Term // terms defined at each push level (defs[0] = base level)
	CacheHit int
}

var solverGen int

func NewSolver(bin string, timeoutMs int, seed int) (*Solver, error) {
	s := &Solver{bin: bin, timeout: timeoutMs, cache: map[int]Result{}}
	switch {
	case strings.Contains(bin, "cvc5"):
		s.args = []string{"--incremental", "--produce-models", "--lang=smt2", fmt.Sprintf("--tlimit-per=%d", timeoutMs), fmt.Sprintf("--seed=%d", seed)}
	default:
		s.args = []string{"-in", fmt.Sprintf("-t:%d", timeoutMs), fmt.Sprintf("smt.random_seed=%d", seed), fmt.Sprintf("sat.random_seed=%d", seed)}
	}
	if p := os.Getenv("GOSYM_SMTLOG"); p != "" {
		s.log, _ = os.Create(p)
	}
	if err := s.start(); err != nil {
		return nil, err
	}
	return s, nil
}

func (s *Solver) start() error {
	s.cmd = exec.Command(s.bin, s.args...)
	in, err := s.cmd.StdinPipe()
	if err != nil {
		return err
	}
	out, err := s.cmd.StdoutPipe()
	if err != nil {
		return err
	}
	s.cmd.Stderr = s.cmd.Stdout
	if err := s.cmd.Start(); err != nil {
		return err
	}
	s.in = in
	s.out = bufio.NewReaderSize(out, 1<<20)
	solverGen++
	s.gen = solverGen
	s.open = false
	s.stack = nil
	s.defs = [][]*Term{nil}
	s.send("(set-option :produce-models true)")
	if strings.Contains(s.bin, "cvc5") {
		s.send("(set-logic ALL)")
	}
	return nil
}

func (s *Solver) Close() {
	if s.cmd != nil && s.cmd.Process != nil {
		s.in.Close()
		s.cmd.Process.Kill()
		s.cmd.Wait()
	}
	if s.log != nil {
		s.log.Close()
	}
}

func (s *Solver) send(line string) {
	if s.log != nil {
		fmt.Fprintln(s.log, line)
	}
	io.WriteString(s.in, line)
	io.WriteString(s.in, "\n")
}

func (s *Solver) readResp() (string, error) {
	var sb strings.Builder
	depth := 0
	for {
		line, err := s.out.ReadString('\n')
		if err != nil {
			return sb.String(), err
		}
		sb.WriteString(line)
		inq := false
		for _, ch := range line {
			switch {
			case ch == '|':
				inq = !inq
			case ch == '"':
				// error strings: treat to end of line conservatively
			case !inq && ch == '(':
				depth++
			case !inq && ch == ')':
				depth--
			}
		}
		if depth <= 0 && strings.TrimSpace(sb.String()) != "" {
			return strings.TrimSpace(sb.String()), nil
		}
	}
}

// define makes sure every subterm has been introduced to the solver.
func (s *Solver) define(t *Term) {
	if t.gen == s.gen && t.sent {
		return
	}
	// iterative post-order
	type fr struct {
		t *Term
		i int
	}
	stack := []fr{{t, 0}}
	for len(stack) > 0 {
		f := &stack[len(stack)-1]
		if f.t.gen == s.gen && f.t.sent {
			stack = stack[:len(stack)-1]
			continue
		}
		if f.i < len(f.t.Args) {
			a := f.t.Args[f.i]
			f.i++
			if !(a.gen == s.gen && a.sent) {
				stack = append(stack, fr{a, 0})
			}
			continue
		}
		tt := f.t
		switch tt.Op {
		case OConst:
		case OVar:
			s.send(fmt.Sprintf("(declare-const %s %s)", tt.ref(), tt.S))
		default:
			s.send(fmt.Sprintf("(define-fun %s () %s %s)", tt.ref(), tt.S, tt.body()))
		}
		tt.sent = true
		tt.gen = s.gen
		if tt.Op != OConst {
			s.defs[len(s.defs)-1] = append(s.defs[len(s.defs)-1], tt)
		}
		stack = stack[:len(stack)-1]
	}
}

func (s *Solver) pushLevel() {
	s.send("(push 1)")
	s.defs = append(s.defs, nil)
}

func (s *Solver) popLevels(n int) {
	if n <= 0 {
		return
	}
	s.send(fmt.Sprintf("(pop %d)", n))
	for i := 0; i < n; i++ {
		for _, t := range s.defs[len(s.defs)-1] {
			t.sent = false
		}
		s.defs = s.defs[:len(s.defs)-1]
	}
}

func (s *Solver) popIfOpen() { s.open = false }

// flatten splits top-level conjunctions so that the asserted stack aligns with path conditions.
func flattenConj(asserts []*Term) []*Term {
	out := make([]*Term, 0, len(asserts)+4)
	for _, a := range asserts {
		if a.IsTrue() {
			continue
		}
		out = append(out, a)
	}
	return out
}

// Check decides satisfiability of the conjunction. The conjuncts are kept asserted on the
// solver's stack (one push level each); the next Check pops only what differs, so queries
// along one path (and its forks) share all solver work on the common prefix.
// After Sat the model stays available for Values until the next Check.
var slowQ = func() float64 { v, _ := strconv.ParseFloat(os.Getenv("GOSYM_SLOWQ"), 64); return v }()

func (s *Solver) Check(asserts []*Term) Result {
	s.open = false
	conj := And(asserts...)
	if conj.IsFalse() {
		return Unsat
	}
	if r, ok := s.cache[conj.ID]; ok && r == Unsat {
		s.CacheHit++
		return r
	}
	t0 := time.Now()
	defer func() {
		d := time.Since(t0)
		s.Wall += d
		if slowQ > 0 && d.Seconds() >= slowQ && dbgEngine != nil {
			var pcs [12]uintptr
			n := runtime.Callers(2, pcs[:])
			fr := runtime.CallersFrames(pcs[:n])
			var names []string
			for {
				f, more := fr.Next()
				names = append(names, strings.TrimPrefix(f.Function, "main."))
				if !more {
					break
				}
			}
			fmt.Fprintf(os.Stderr, "SLOWQ %.1fs conjuncts=%d in %v via %v\n", d.Seconds(), len(asserts), dbgEngine.curFn, names)
		}
	}()
	as := flattenConj(asserts)
	k := 0
	for k < len(as) && k < len(s.stack) && as[k] == s.stack[k] {
		k++
	}
	s.popLevels(len(s.stack) - k)
	s.stack = s.stack[:k]
	for _, a := range as[k:] {
		s.pushLevel()
		s.define(a)
		s.send(fmt.Sprintf("(assert %s)", a.ref()))
		s.stack = append(s.stack, a)
	}
	s.send("(check-sat)")
	s.Queries++
	resp, err := s.readResp()
	if err != nil {
		s.Errors = append(s.Errors, "solver died: "+err.Error()+" "+resp)
		s.NUnknown++
		s.restart()
		return Unknown
	}
	switch {
	case strings.HasPrefix(resp, "unsat"):
		s.NUnsat++
		s.cache[conj.ID] = Unsat
		return Unsat
	case strings.HasPrefix(resp, "sat"):
		s.NSat++
		s.open = true
		return Sat
	default:
		if strings.Contains(resp, "(error") {
			s.Errors = append(s.Errors, resp)
		}
		s.NUnknown++
		return Unknown
	}
}

func (s *Solver) restart() {
	if s.cmd != nil && s.cmd.Process != nil {
		s.cmd.Process.Kill()
		s.cmd.Wait()
	}
	s.start()
}

// Values evaluates terms in the current model (after a Sat Check).
func (s *Solver) Values(ts []*Term) ([]uint64, error) {
	out := make([]uint64, len(ts))
	if !s.open {
		return nil, fmt.Errorf("no open model")
	}
	var q []*Term
	var qi []int
	for i, t := range ts {
		if t.IsConst() {
			out[i] = t.C
			continue
		}
		// every term must already be defined; defining new terms inside a frame is
		// fine for z3/cvc5 (they are popped with the frame) so mark them unsent after.
		q = append(q, t)
		qi = append(qi, i)
	}
	const chunk = 200
	for off := 0; off < len(q); off += chunk {
		end := off + chunk
		if end > len(q) {
			end = len(q)
		}
		var sb strings.Builder
		sb.WriteString("(get-value (")
		for _, t := range q[off:end] {
			s.define(t) // recorded at the current push level; forgotten when that level is popped
			sb.WriteString(t.ref())
			sb.WriteString(" ")
		}
		sb.WriteString("))")
		s.send(sb.String())
		resp, err := s.readResp()
		if err != nil || strings.Contains(resp, "(error") {
			s.Errors = append(s.Errors, "get-value: "+resp)
			return nil, fmt.Errorf("get-value failed: %s", resp)
		}
		vals := parseValues(resp)
		if len(vals) != end-off {
			return nil, fmt.Errorf("get-value: expected %d values, got %d: %s", end-off, len(vals), resp)
		}
		for k, v := range vals {
			out[qi[off+k]] = v
		}
	}
	return out, nil
}

func (s *Solver) defineInFrame(t *Term) []*Term {
	var newly []*Term
	var rec func(t *Term)
	rec = func(t *Term) {
		if t.gen == s.gen && t.sent {
			return
		}
		for _, a := range t.Args {
			rec(a)
		}
		switch t.Op {
		case OConst:
		case OVar:
			s.send(fmt.Sprintf("(declare-const %s %s)", t.ref(), t.S))
		default:
			s.send(fmt.Sprintf("(define-fun %s () %s %s)", t.ref(), t.S, t.body()))
		}
		t.sent = true
		t.gen = s.gen
		newly = append(newly, t)
	}
	rec(t)
	return newly
}

// parseValues extracts the value of each (name value) pair of a get-value response.
func parseValues(resp string) []uint64 {
	var out []uint64
	// tokens
	i := 0
	n := len(resp)
	depth := 0
	var last string
	for i < n {
		ch := resp[i]
		switch {
		case ch == '(':
			depth++
			i++
		case ch == ')':
			if depth == 2 {
				out = append(out, parseVal(last))
			}
			depth--
			i++
		case ch == '|':
			j := strings.IndexByte(resp[i+1:], '|')
			last = resp[i : i+j+2]
			i += j + 2
		case ch == ' ' || ch == '\n' || ch == '\t' || ch == '\r':
			i++
		default:
			j := i
			for j < n && resp[j] != ' ' && resp[j] != ')' && resp[j] != '(' && resp[j] != '\n' {
				j++
			}
			last = resp[i:j]
			i = j
		}
	}
	return out
}

func parseVal(tok string) uint64 {
	switch {
	case tok == "true":
		return 1
	case tok == "false":
		return 0
	case strings.HasPrefix(tok, "#x"):
		v, _ := strconv.ParseUint(tok[2:], 16, 64)
		return v
	case strings.HasPrefix(tok, "#b"):
		v, _ := strconv.ParseUint(tok[2:], 2, 64)
		return v
	}
	return 0
}

// Script renders a standalone SMT-LIB2 script deciding the conjunction (for cross-checking
// with other solvers).
func Script(asserts []*Term, logic string) string {
	var sb strings.Builder
	if logic != "" {
		fmt.Fprintf(&sb, "(set-logic %s)\n", logic)
	}
	seen := map[int]bool{}
	var rec func(t *Term)
	rec = func(t *Term) {
		if seen[t.ID] {
			return
		}
		seen[t.ID] = true
		for _, a := range t.Args {
			rec(a)
		}
		switch t.Op {
		case OConst:
		case OVar:
			fmt.Fprintf(&sb, "(declare-const %s %s)\n", t.ref(), t.S)
		default:
			fmt.Fprintf(&sb, "(define-fun %s () %s %s)\n", t.ref(), t.S, t.body())
		}
	}
	conj := And(asserts...)
	rec(conj)
	fmt.Fprintf(&sb, "(assert %s)\n(check-sat)\n", conj.ref())
	return sb.String()
}

// RunScript decides a standalone script with another solver binary.
func RunScript(bin string, script string, timeoutMs int) (Result, string) {
	var args []string
	if strings.Contains(bin, "cvc5") {
		args = []string{"--lang=smt2", fmt.Sprintf("--tlimit=%d", timeoutMs)}
	} else {
		args = []string{"-in", fmt.Sprintf("-T:%d", timeoutMs/1000+1)}
	}
	cmd := exec.Command(bin, args...)
	cmd.Stdin = strings.NewReader(script)
	outb, _ := cmd.CombinedOutput()
	o := strings.TrimSpace(string(outb))
	switch {
	case strings.Contains(o, "(error"):
		return Unknown, o
	case strings.HasPrefix(o, "unsat"):
		return Unsat, o
	case strings.HasPrefix(o, "sat"):
		return Sat, o
	}
	return Unknown, o
}
