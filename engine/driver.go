package main

// Check driver: runs the harnesses of one property, aggregates, writes evidence.

import (
	"crypto/sha256"
	"encoding/hex"
	"encoding/json"
	"fmt"
	"os"
	"os/exec"
	"path/filepath"
	"sort"
	"strings"
	"sync"
	"time"
)

type CheckDef struct {
	Quick       []HarnessSpec `json:"quick"`
	Thorough    []HarnessSpec `json:"thorough"`
	Assumptions []string      `json:"assumptions"`
	Exhaustive  bool          `json:"exhaustive"`
}

type KnownFinding struct {
	Property   string                 `json:"property"`
	ID         string                 `json:"id"`
	Kind       string                 `json:"kind"` // finding | fixed
	Harness    string                 `json:"harness"`
	Obligation string                 `json:"obligation"`
	Region     []RegionAtom           `json:"region"`
	Witness    map[string]interface{} `json:"witness"`
	Text       string                 `json:"text"`
	Commit     string                 `json:"commit,omitempty"`
	// Param: name of the harness parameter that makes the harness ASSUME the finding's
	// region away (the rest of the space is still decided); WitnessSpec: the harness spec the
	// witness is replayed with (natively) to see whether the finding is still present.
	Param       string       `json:"param,omitempty"`
	WitnessSpec *HarnessSpec `json:"witness_spec,omitempty"`
}

type RegionAtom struct {
	Var  string `json:"var"`
	Sort string `json:"sort"` // bool,u8,u16,u32,u64,i32,i64
	Op   string `json:"op"`   // == != < <= > >=  (unsigned unless sort is i*)
	Val  int64  `json:"val"`
}

func loadFindings(verifDir string) []KnownFinding {
	var kf struct {
		Findings []KnownFinding `json:"findings"`
	}
	b, err := os.ReadFile(filepath.Join(verifDir, "known_findings.json"))
	if err != nil {
		return nil
	}
	json.Unmarshal(b, &kf)
	return kf.Findings
}

func sortOf(s string) (Sort, bool) {
	switch s {
	case "bool":
		return BoolSort, false
	case "u8":
		return BV(8), false
	case "u16":
		return BV(16), false
	case "u32":
		return BV(32), false
	case "u64":
		return BV(64), false
	case "i32":
		return BV(32), true
	case "i64":
		return BV(64), true
	}
	return BV(64), false
}

func (e *Engine) loadKnownFindings(verifDir, harness string) {
	for _, f := range loadFindings(verifDir) {
		if f.Kind != "finding" || f.Harness != harness || len(f.Region) == 0 {
			continue
		}
		var cs []*Term
		for _, a := range f.Region {
			so, signed := sortOf(a.Sort)
			v := Var(a.Var, so)
			if so.K == SBool {
				c := v
				if (a.Op == "==") == (a.Val == 0) {
					c = Not(v)
				}
				cs = append(cs, c)
				continue
			}
			k := BVC(uint64(a.Val), so.W)
			lt, le := OULt, OULe
			if signed {
				lt, le = OSLt, OSLe
			}
			switch a.Op {
			case "==":
				cs = append(cs, Eq(v, k))
			case "!=":
				cs = append(cs, Not(Eq(v, k)))
			case "<":
				cs = append(cs, CmpBV(lt, v, k))
			case "<=":
				cs = append(cs, CmpBV(le, v, k))
			case ">":
				cs = append(cs, CmpBV(lt, k, v))
			case ">=":
				cs = append(cs, CmpBV(le, k, v))
			}
		}
		e.exclude = append(e.exclude, Not(And(cs...)))
	}
}

func selfBin() string {
	p, err := os.Executable()
	if err != nil {
		return "/verif/bin/gosym"
	}
	return p
}

func runCheck(verifDir, prop, tier string, seed int) int {
	t0 := time.Now()
	var defs map[string]CheckDef
	b, err := os.ReadFile(filepath.Join(verifDir, "checks.json"))
	if err != nil {
		fmt.Println("cannot read checks.json:", err)
		return 2
	}
	if err := json.Unmarshal(b, &defs); err != nil {
		fmt.Println("bad checks.json:", err)
		return 2
	}
	def, ok := defs[prop]
	if !ok {
		fmt.Printf("no check defined for %s\n", prop)
		return 2
	}
	specs := def.Quick
	if tier == "thorough" && len(def.Thorough) > 0 {
		specs = def.Thorough
	}
	// known findings: exclude their regions by harness parameter, and replay their witnesses
	findings0 := loadFindings(verifDir)
	for _, f := range findings0 {
		if f.Kind != "finding" || f.Property != prop || f.Param == "" {
			continue
		}
		for i := range specs {
			if strings.HasPrefix(specs[i].Name, f.Harness) {
				np := map[string]int{}
				for k, v := range specs[i].Params {
					np[k] = v
				}
				np[f.Param] = 1
				specs[i].Params = np
			}
		}
	}
	// make generated overlay files once, before the parallel runs
	if ov, err := overlayFiles(verifDir); err == nil {
		writeOverlayJSON(verifDir, ov)
	}
	resDir := filepath.Join(scratchDir(verifDir), "out", "results")
	os.MkdirAll(resDir, 0o755)
	results := make([]*HarnessResult, len(specs))
	var wg sync.WaitGroup
	sem := make(chan struct{}, 8)
	for i := range specs {
		wg.Add(1)
		go func(i int) {
			defer wg.Done()
			sem <- struct{}{}
			defer func() { <-sem }()
			sp := specs[i]
			sj, _ := json.Marshal(sp)
			out := filepath.Join(resDir, fmt.Sprintf("%s-%s-%s.json", prop, tier, sp.Name))
			os.Remove(out)
			args := []string{"harness", "-spec", string(sj), "-out", out, "-seed", fmt.Sprint(seed)}
			if tier == "thorough" {
				args = append(args, "-thorough")
			}
			to := sp.Timeout
			if to == 0 {
				to = 600
			}
			cmd := exec.Command("timeout", append([]string{fmt.Sprint(to), selfBin()}, args...)...)
			cmd.Env = append(os.Environ(), "VERIF_DIR="+verifDir)
			ob, err := cmd.CombinedOutput()
			var r HarnessResult
			if rb, rerr := os.ReadFile(out); rerr == nil && json.Unmarshal(rb, &r) == nil {
				results[i] = &r
				return
			}
			r = HarnessResult{Spec: sp}
			os.WriteFile(out+".log", ob, 0o644)
			r.Inconcl = append(r.Inconcl, fmt.Sprintf("harness process failed (%v): %s", err, tail(string(ob), 300)))
			results[i] = &r
		}(i)
	}
	wg.Wait()

	findings := loadFindings(verifDir)
	exit := 0
	violations := 0
	var inconcl []string
	var samples []interface{}
	cov := map[string]interface{}{}
	var states, instrs, replays, queries, sat, unsat, unknown, spurious, obls, discharged, coversReached, coversTotal, merges, paths int
	var solverS float64
	funcs := map[string]int{}
	var bounds, outside, stubs, unwinding []string
	perHarness := []interface{}{}
	knownPrinted := map[string]bool{}
	for _, r := range results {
		states += r.States
		instrs += r.Instrs
		replays += r.Replays
		queries += r.Queries
		sat += r.Sat
		unsat += r.Unsat
		unknown += r.Unknown
		spurious += r.Spurious
		solverS += r.SolverS
		merges += r.Merges
		paths += r.Paths
		for k, v := range r.Funcs {
			funcs[k] = v
		}
		if r.Spec.Bounds != "" {
			bounds = append(bounds, r.Spec.Name+": "+r.Spec.Bounds)
		}
		if r.Spec.Outside != "" {
			outside = append(outside, r.Spec.Name+": "+r.Spec.Outside)
		}
		stubs = append(stubs, r.Spec.Stubs...)
		for _, u := range r.Unwinding {
			unwinding = append(unwinding, r.Spec.Name+": "+u)
			inconcl = append(inconcl, fmt.Sprintf("harness=%s bound-insufficient: %s", r.Spec.Name, u))
		}
		for _, m := range r.Inconcl {
			inconcl = append(inconcl, fmt.Sprintf("harness=%s %s", r.Spec.Name, m))
		}
		nviol := 0
		for _, ob := range r.Obligations {
			obls++
			switch ob.Result {
			case "holds":
				discharged++
			case "violated":
				if !ob.Confirmd {
					inconcl = append(inconcl, fmt.Sprintf("harness=%s obligation=%s unconfirmed model", r.Spec.Name, ob.ID))
					continue
				}
				// known finding?
				kf := matchFinding(findings, prop, r.Spec.Name, ob)
				if kf != nil {
					if !knownPrinted[kf.ID] {
						fmt.Printf("KNOWN-FINDING: property=%s %s\n", prop, kf.Text)
						knownPrinted[kf.ID] = true
					}
					discharged++
					continue
				}
				nviol++
				violations++
				path := writeReplay(verifDir, prop, r.Spec, ob)
				fmt.Printf("VIOLATION property=%s replay=%s\n", prop, path)
				fmt.Printf("  harness=%s %s=%s site=%s %s\n", r.Spec.Name, ob.Kind, ob.ID, ob.Site, ob.Note)
				exit = 1
				if len(samples) < 12 {
					samples = append(samples, map[string]interface{}{"kind": "counterexample", "harness": r.Spec.Name, "obligation": ob.ID, "model": ob.Model})
				}
			case "spurious":
				inconcl = append(inconcl, fmt.Sprintf("harness=%s obligation=%s spurious model (not reproduced natively): %s", r.Spec.Name, ob.ID, ob.Note))
			default:
				inconcl = append(inconcl, fmt.Sprintf("harness=%s obligation=%s %s", r.Spec.Name, ob.ID, ob.Note))
			}
		}
		for _, c := range r.Covers {
			coversTotal++
			if c.Reached && c.Native {
				coversReached++
				if len(samples) < 12 {
					samples = append(samples, map[string]interface{}{"kind": "cover", "harness": r.Spec.Name, "cover": c.ID, "model": c.Model})
				}
			} else if c.Reached {
				inconcl = append(inconcl, fmt.Sprintf("harness=%s cover=%s reached symbolically but not natively (vacuity guard)", r.Spec.Name, c.ID))
			} else {
				inconcl = append(inconcl, fmt.Sprintf("harness=%s cover=%s unreachable (vacuity guard)", r.Spec.Name, c.ID))
			}
		}
		for k, v := range r.Cross {
			if strings.HasPrefix(v, "DISAGREE") {
				inconcl = append(inconcl, fmt.Sprintf("harness=%s solver disagreement on %s: %s", r.Spec.Name, k, v))
			}
		}
		perHarness = append(perHarness, map[string]interface{}{"harness": r.Spec.Name, "func": r.Spec.Func, "obligations": len(r.Obligations), "violations": nviol,
			"states": r.States, "instrs": r.Instrs, "queries": r.Queries, "solver_s": r.SolverS, "wall_s": r.WallS, "covers": len(r.Covers), "cross_check": r.Cross, "extra": r.Extra})
	}
	// a listed finding is announced only while its witness still fails natively
	for _, f := range findings0 {
		if f.Kind != "finding" || f.Property != prop || f.WitnessSpec == nil || knownPrinted[f.ID] {
			continue
		}
		rr, _, err := nativeReplay(verifDir, f.WitnessSpec.Pkg, []replayCase{{ID: "kf", Harness: f.WitnessSpec.Name, Vars: f.Witness, Params: f.WitnessSpec.Params}})
		if err == nil && rr["kf"] != nil && (contains(rr["kf"].Failed, f.Obligation) || (f.Obligation == "" && len(rr["kf"].Failed) > 0) || rr["kf"].Panicked != "") {
			fmt.Printf("KNOWN-FINDING: property=%s %s\n", prop, f.Text)
			knownPrinted[f.ID] = true
			replays++
		}
	}
	for _, m := range inconcl {
		fmt.Printf("INCONCLUSIVE property=%s reason=%s\n", prop, m)
	}
	if len(samples) == 0 {
		for _, r := range results {
			for _, ob := range r.Obligations {
				if len(samples) < 6 {
					samples = append(samples, map[string]interface{}{"kind": "obligation", "harness": r.Spec.Name, "id": ob.ID, "site": ob.Site, "result": ob.Result})
				}
			}
		}
	}
	if len(samples) == 0 {
		samples = append(samples, map[string]interface{}{"kind": "none", "note": "no obligation reached"})
	}
	var fnames []string
	for k, v := range funcs {
		fnames = append(fnames, fmt.Sprintf("%s (%d instrs)", k, v))
	}
	sort.Strings(fnames)
	if states < 1 {
		states = 1
	}
	if instrs < 1 {
		instrs = 1
	}
	cov["states"] = states
	cov["transitions"] = instrs
	cov["traces_validated_against_impl"] = replays
	cov["samples"] = samples
	cov["obligations"] = obls
	cov["discharged"] = discharged
	cov["functions_encoded"] = fnames
	cov["bounds"] = bounds
	cov["outside_bounds"] = outside
	cov["queries"] = queries
	cov["sat"] = sat
	cov["unsat"] = unsat
	cov["unknown"] = unknown
	cov["solver_s"] = solverS
	cov["stubs"] = uniq(stubs)
	cov["spurious_models"] = spurious
	cov["unwinding_incomplete"] = unwinding
	cov["inconclusive"] = inconcl
	cov["covers_reached_natively"] = coversReached
	cov["covers_total"] = coversTotal
	cov["merges"] = merges
	cov["paths"] = paths
	cov["harnesses"] = perHarness
	cov["exhaustive"] = def.Exhaustive && len(inconcl) == 0
	cov["rule"] = "each obligation is one (harness assertion | implicit panic check) decided by the SMT solver over all nondet inputs within the stated bounds; samples are solver models replayed natively"
	ev := map[string]interface{}{
		"property_id": prop, "tier": tier, "seed": seed, "level": "model_checking", "coverage": cov,
		"assumptions": append(append([]string(nil), def.Assumptions...), "solver: z3 5.1.0 (z3-new) primary; any (error/unknown/timeout is reported inconclusive"),
		"wall_s":      time.Since(t0).Seconds(), "violations": violations,
	}
	eb, _ := json.MarshalIndent(ev, "", " ")
	os.MkdirAll(filepath.Join(scratchDir(verifDir), "evidence"), 0o755)
	os.WriteFile(filepath.Join(scratchDir(verifDir), "evidence", prop+".json"), eb, 0o644)
	fmt.Printf("property=%s tier=%s harnesses=%d obligations=%d discharged=%d violations=%d inconclusive=%d queries=%d solver_s=%.1f wall_s=%.1f\n",
		prop, tier, len(specs), obls, discharged, violations, len(inconcl), queries, solverS, time.Since(t0).Seconds())
	return exit
}

func uniq(xs []string) []string {
	seen := map[string]bool{}
	var out []string
	for _, x := range xs {
		if !seen[x] {
			seen[x] = true
			out = append(out, x)
		}
	}
	return out
}

// matchFinding: a listed finding covers a violation of the same harness+obligation whose
// model lies inside the finding's region (regions are excluded from search, so a model can
// only come from the witness replay) or that is the witness itself.
func matchFinding(fs []KnownFinding, prop, harness string, ob *Obligation) *KnownFinding {
	for i := range fs {
		f := &fs[i]
		if f.Kind != "finding" || f.Property != prop || f.Harness != harness {
			continue
		}
		if f.Obligation != "" && f.Obligation != ob.ID {
			continue
		}
		if modelInRegion(ob.Model, f.Region) {
			return f
		}
	}
	return nil
}

func modelInRegion(m map[string]interface{}, region []RegionAtom) bool {
	if len(region) == 0 {
		return false
	}
	for _, a := range region {
		ent, ok := m[a.Var].(map[string]interface{})
		if !ok {
			return false
		}
		vs, _ := ent["v"].(string)
		var v int64
		fmt.Sscan(vs, &v)
		if ent["k"] == "bool" {
			if vs == "true" || vs == "1" {
				v = 1
			}
		}
		ok = false
		switch a.Op {
		case "==":
			ok = v == a.Val
		case "!=":
			ok = v != a.Val
		case "<":
			ok = v < a.Val
		case "<=":
			ok = v <= a.Val
		case ">":
			ok = v > a.Val
		case ">=":
			ok = v >= a.Val
		}
		if !ok {
			return false
		}
	}
	return true
}

type ReplayFile struct {
	Property   string                 `json:"property"`
	Harness    HarnessSpec            `json:"harness"`
	Obligation string                 `json:"obligation"`
	Kind       string                 `json:"kind"`
	Site       string                 `json:"site"`
	Note       string                 `json:"note"`
	Vars       map[string]interface{} `json:"vars"`
}

func writeReplay(verifDir, prop string, spec HarnessSpec, ob *Obligation) string {
	rf := ReplayFile{Property: prop, Harness: spec, Obligation: ob.ID, Kind: ob.Kind, Site: ob.Site, Note: ob.Note, Vars: ob.Model}
	b, _ := json.MarshalIndent(rf, "", " ")
	h := sha256.Sum256(b)
	dir := filepath.Join(scratchDir(verifDir), "replays")
	os.MkdirAll(dir, 0o755)
	p := filepath.Join(dir, fmt.Sprintf("%s-%s.json", prop, hex.EncodeToString(h[:6])))
	os.WriteFile(p, b, 0o644)
	rel, err := filepath.Rel(verifDir, p)
	if err != nil {
		return p
	}
	return rel
}

func runReplayFile(verifDir, path string) int {
	if !filepath.IsAbs(path) {
		if _, err := os.Stat(path); err != nil {
			path = filepath.Join(verifDir, path)
		}
	}
	b, err := os.ReadFile(path)
	if err != nil {
		fmt.Println("cannot read replay file:", err)
		return 2
	}
	var rf ReplayFile
	if err := json.Unmarshal(b, &rf); err != nil {
		fmt.Println("bad replay file:", err)
		return 2
	}
	replayRace = rf.Harness.Race
	rr, raw, err := nativeReplay(verifDir, rf.Harness.Pkg, []replayCase{{ID: "replay", Harness: rf.Harness.Name, Vars: rf.Vars, Params: rf.Harness.Params}})
	if err != nil {
		fmt.Println("replay failed to run:", err)
		fmt.Println(tail(raw, 2000))
		return 2
	}
	ro := rr["replay"]
	if ro == nil {
		fmt.Println("no replay outcome")
		return 2
	}
	fmt.Printf("replay of %s: failed assertions=%v panic=%q\n", filepath.Base(path), ro.Failed, ro.Panicked)
	if (rf.Kind == "panic" && ro.Panicked != "") || contains(ro.Failed, rf.Obligation) || (ro.OOM && strings.HasPrefix(rf.Obligation, "c06-")) || (ro.Race && strings.HasPrefix(rf.Obligation, "c17-")) {
		fmt.Printf("VIOLATION property=%s replay=%s\n", rf.Property, path)
		return 1
	}
	fmt.Println("not reproduced")
	return 0
}
