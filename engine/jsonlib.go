package main

// Concrete shortcuts for encoding/json and bytes.Buffer / bytes.Reader (used by the
// hand-written JSON helpers of package encoding): when the input bytes are CONCRETE on the
// current path, the real library is simply called inside the engine and its result converted
// to engine values. Symbolic input ⇒ unsupported (inconclusive). The harness enumerates the
// documents by symbolic choices, so every path sees a concrete document.

import (
	"bytes"
	"encoding/json"
	"go/types"
	"io"
)

type bufData struct{ S VSlice }

func (b bufData) MergeWith(g *Term, other interface{}) (interface{}, bool) { return nil, false }
func (b bufData) Refs(f func(ObjID)) bool {
	if b.S.Obj != 0 {
		f(b.S.Obj)
	}
	return true
}

type decData struct {
	dec *json.Decoder
	buf []byte
	pos int // tokens consumed so far (the decoder is re-created when a path forks)
}

func (d *decData) MergeWith(g *Term, other interface{}) (interface{}, bool) { return nil, false }
func (d *decData) Refs(f func(ObjID)) bool                                   { return true }

// concreteBytes returns the content of a byte slice if every byte and the length are concrete.
func (e *Engine) concreteBytes(st *State, s VSlice) ([]byte, bool) {
	if s.Obj == 0 {
		return []byte{}, true
	}
	ln, ok := st.Conc(s.Len)
	if !ok {
		return nil, false
	}
	off, ok := st.Conc(s.Off)
	if !ok {
		return nil, false
	}
	arr := st.Obj(s.Obj).Arr
	out := make([]byte, ln.Int())
	for i := range out {
		t := Select(arr, I64(off.Int()+int64(i)))
		if c, ok := st.Conc(t); ok {
			out[i] = byte(c.Uint())
		} else {
			return nil, false
		}
	}
	return out, true
}

func (e *Engine) constBytes(st *State, b []byte, site string) VSlice {
	arr := ConstArr(0)
	for i, c := range b {
		arr = Store(arr, I64(int64(i)), BVC(uint64(c), 8))
	}
	return e.newBytes(st, arr, I64(int64(len(b))), site)
}

func registerJSONLib(e *Engine) {
	// ---- bytes.Buffer (value in a cell, zero value = empty) ----
	bufOf := func(c *CallCtx) (VPtr, VSlice) {
		p := c.Args[0].(VPtr)
		v := e.load(c.St, p)
		o, _ := v.(VOpaque)
		if d, ok := o.Data.(bufData); ok {
			return p, d.S
		}
		return p, NilSlice(true)
	}
	e.intr["(*bytes.Buffer).Write"] = func(e *Engine, c *CallCtx) []Outcome {
		p, cur := bufOf(c)
		add := c.Args[1].(VSlice)
		ab, ok := e.concreteBytes(c.St, add)
		cb, ok2 := e.concreteBytes(c.St, cur)
		if !ok || !ok2 {
			unsupported("bytes.Buffer.Write of symbolic bytes at %s (arg concrete=%v len=%s; buffer concrete=%v)", c.Site, ok, add.Len, ok2)
		}
		ns := e.constBytes(c.St, append(append([]byte{}, cb...), ab...), c.Site)
		e.store(c.St, p, VOpaque{Kind: "bytes.Buffer", Data: bufData{S: ns}}, c.Site)
		return one(c.St, VTuple{Elems: []Value{I64(int64(len(ab))), NilIface()}})
	}
	e.intr["(*bytes.Buffer).Bytes"] = func(e *Engine, c *CallCtx) []Outcome {
		_, cur := bufOf(c)
		if cur.Obj == 0 {
			return one(c.St, e.constBytes(c.St, nil, c.Site))
		}
		return one(c.St, cur)
	}
	e.intr["bytes.NewReader"] = func(e *Engine, c *CallCtx) []Outcome {
		id := c.St.Alloc(&Object{Kind: KCell, Typ: e.fakeNamed("bytes.Reader"), Val: VOpaque{Kind: "bytes.Reader", Data: bufData{S: c.Args[0].(VSlice)}}, Site: c.Site})
		return one(c.St, VPtr{Nil: False, Obj: id})
	}
	e.intr["encoding/json.NewDecoder"] = func(e *Engine, c *CallCtx) []Outcome {
		r := c.Args[0].(VIface)
		rp, ok := r.Val.(VPtr)
		if !ok {
			unsupported("json.NewDecoder over %s", r.Dyn)
		}
		o, _ := e.load(c.St, rp).(VOpaque)
		bd, ok := o.Data.(bufData)
		if !ok {
			unsupported("json.NewDecoder over a reader that is not a bytes.Reader")
		}
		b, ok := e.concreteBytes(c.St, bd.S)
		if !ok {
			unsupported("json.NewDecoder over symbolic bytes at %s", c.Site)
		}
		id := c.St.Alloc(&Object{Kind: KCell, Typ: e.fakeNamed("encoding/json.Decoder"), Val: VOpaque{Kind: "encoding/json.Decoder", Data: &decData{buf: b}}, Site: c.Site})
		return one(c.St, VPtr{Nil: False, Obj: id})
	}
	e.intr["(*encoding/json.Decoder).Token"] = func(e *Engine, c *CallCtx) []Outcome {
		p := c.Args[0].(VPtr)
		o, _ := e.load(c.St, p).(VOpaque)
		d, ok := o.Data.(*decData)
		if !ok {
			unsupported("Token on an unknown decoder")
		}
		// decoders are immutable in the model: replay the prefix, then read one more token
		dec := json.NewDecoder(bytes.NewReader(d.buf))
		var tok json.Token
		var err error
		for i := 0; i <= d.pos; i++ {
			tok, err = dec.Token()
			if err != nil {
				break
			}
		}
		e.store(c.St, p, VOpaque{Kind: "encoding/json.Decoder", Data: &decData{buf: d.buf, pos: d.pos + 1}}, c.Site)
		if err != nil {
			kind := "encoding/json.SyntaxError"
			if err == io.EOF {
				kind = "io.EOF"
			}
			return one(c.St, VTuple{Elems: []Value{NilIface(), e.newError(c.St, kind, VErr{Msg: err.Error()}, c.Site)}})
		}
		var tv Value
		switch t := tok.(type) {
		case json.Delim:
			dt := lookupNamed(e.pkgs, "encoding/json", "Delim")
			tv = VIface{Nil: False, Dyn: dt, Val: BVC(uint64(t), 32)}
		case string:
			tv = VIface{Nil: False, Dyn: types.Typ[types.String], Val: ConstString(t)}
		case bool:
			tv = VIface{Nil: False, Dyn: types.Typ[types.Bool], Val: BoolC(t)}
		case float64:
			tv = VIface{Nil: False, Dyn: types.Typ[types.Float64], Val: VOpaque{Kind: "float", Data: t}}
		case nil:
			tv = NilIface()
		default:
			unsupported("json token %T", tok)
		}
		return one(c.St, VTuple{Elems: []Value{tv, NilIface()}})
	}
	// ndJSONObject(data) (map[string]json.RawMessage, error-as-bool): the real json.Unmarshal
	for _, pp := range []string{modPath, modPath + "/encoding"} {
		e.intr[pp+".ndJSONObject"] = func(e *Engine, c *CallCtx) []Outcome {
			b, ok := e.concreteBytes(c.St, c.Args[0].(VSlice))
			if !ok {
				unsupported("ndJSONObject on symbolic bytes at %s", c.Site)
			}
			var m map[string]json.RawMessage
			err := json.Unmarshal(b, &m)
			rawT := lookupNamed(e.pkgs, "encoding/json", "RawMessage")
			mt := types.NewMap(types.Typ[types.String], rawT)
			if err != nil || m == nil {
				return one(c.St, VTuple{Elems: []Value{VMap{Nil: True}, False}})
			}
			id := c.St.Alloc(&Object{Kind: KMap, Typ: mt, Site: c.Site})
			obj := c.St.Obj(id)
			n := *obj
			// deterministic order: as the keys appear in a second pass with the token reader
			var keys []string
			dec := json.NewDecoder(bytes.NewReader(b))
			dec.Token()
			depth := 0
			for {
				t, err := dec.Token()
				if err != nil {
					break
				}
				if dl, ok := t.(json.Delim); ok {
					if dl == '{' || dl == '[' {
						depth++
					} else {
						if depth == 0 {
							break
						}
						depth--
					}
					continue
				}
				if depth == 0 {
					if s, ok := t.(string); ok {
						seen := false
						for _, k := range keys {
							if k == s {
								seen = true
							}
						}
						if _, isKey := m[s]; isKey && !seen {
							keys = append(keys, s)
							// skip the value of this member (scalar: one token; composite handled by depth)
						}
					}
				}
			}
			for k := range m {
				seen := false
				for _, x := range keys {
					if x == k {
						seen = true
					}
				}
				if !seen {
					keys = append(keys, k)
				}
			}
			for _, k := range keys {
				n.Entries = append(n.Entries, MapEntry{Key: ConstString(k), Val: e.constBytes(c.St, m[k], c.Site)})
			}
			c.St.SetObj(id, &n)
			return one(c.St, VTuple{Elems: []Value{VMap{Nil: False, Obj: id}, True}})
		}
	}
}
