#!/bin/sh
# usage: runall.sh [quick|thorough]  -- run every registered check on the unchanged tree, then validate manifest + evidence
cd "$(dirname "$0")/.." || exit 2; V=$(pwd)
tier=${1:-quick}
for p in $(python3 -c "import json;print(' '.join(c['property_id'] for c in json.load(open('MANIFEST.json'))['checks']))"); do
  s=$(date +%s); out=$(./check $p $tier 2>&1); rc=$?
  echo "$out" | grep -E "^VIOLATION|^INCONCLUSIVE|^KNOWN" | cut -c1-220 | head -5
  echo "$(echo "$out" | tail -1) exit=$rc"
done
python3-vt tools/validate.py
