#!/bin/sh
# usage: tools/mut.sh <file-in-repo> '<sed expr>' <PROP>...   -- apply a one-line mutation, run checks, restore
f=$1; expr=$2; shift 2
cd /repo && cp "$f" /tmp/mut.bak && sed -i "$expr" "$f" && git diff --stat | tail -1
(cd /repo && go build ./... ) || { cp /tmp/mut.bak "/repo/$f"; echo "mutant does not compile"; exit 2; }
for p in "$@"; do (cd /verif && ./check $p quick | grep -v "^  " | cut -c1-400; echo "exit=$?"); done
cp /tmp/mut.bak "/repo/$f"; cd /repo && git status --short
