#!/bin/sh
# usage: seedall.sh [ids...]  -- run every seeded change (or the named ones) against the check of its property; prints a table
cd /verif
ids=${*:-$(ls seeded)}
for n in $ids; do
  p=$(python3 -c "import json;print(json.load(open('seeded/$n/meta.json'))['property'])")
  r=$(tools/seedrun.sh /verif/seeded/$n $p 2>&1)
  v=$(echo "$r" | grep -c "^VIOLATION")
  i=$(echo "$r" | grep -c "^INCONCLUSIVE")
  echo "$n property=$p violations=$v inconclusive=$i $(echo "$r" | grep '^SEED' | sed 's/.*exit=/exit=/')"
done
