#!/bin/sh
# usage: seedall.sh [ids...]  -- run every seeded change (or the named ones) against the check(s) of its property
# (meta.json "checks" lists them when a change is caught by another property's check); prints a table
cd "$(dirname "$0")/.." || exit 2; V=$(pwd)
ids=${*:-$(ls seeded | grep -v RESULTS)}
for n in $ids; do
  ps=$(python3 -c "import json;m=json.load(open('seeded/$n/meta.json'));print(' '.join(m.get('checks',[m['property']])))")
  r=$(tools/seedrun.sh $V/seeded/$n $ps 2>&1)
  v=$(echo "$r" | grep -c "^VIOLATION")
  i=$(echo "$r" | grep -c "^INCONCLUSIVE")
  echo "$n checks=$(echo $ps | tr ' ' ',') violations=$v inconclusive=$i $(echo "$r" | grep '^SEED' | sed 's/.*exit=/exit=/' | tr '\n' ' ')"
done
