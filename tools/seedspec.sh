#!/bin/sh
# usage: seedspec.sh <seed-id> '<spec json>' [seconds] -- run ONE harness spec against a seeded change (scratch worktree), print the summary
name=$1; spec=$2; T=${3:-900}
wt=/tmp/seedrun/$name-repo; sc=/tmp/seedrun/$name-scratch
mkdir -p /tmp/seedrun; rm -rf $sc; git -C /repo worktree remove --force $wt >/dev/null 2>&1
git -C /repo worktree add --detach $wt HEAD >/dev/null 2>&1 || { echo "cannot create worktree"; exit 2; }
git -C $wt apply /verif/seeded/$name/patch.diff || { git -C /repo worktree remove --force $wt; exit 2; }
VERIF_REPO=$wt VERIF_SCRATCH=$sc /verif/tools/runh.sh "$spec" $T 2>&1 | grep -v "WARNING\|^states\|^instrs\|^queries" | cut -c1-600
git -C /repo worktree remove --force $wt; rm -rf $sc
