#!/bin/sh
# usage: seedrun.sh <seed-dir> <PROP>...
# Applies the seeded change to a scratch copy of /repo (never /repo itself), runs the checks
# against it with outputs redirected to a scratch directory, and removes the copy.
d=$1; shift
name=$(basename $d)
wt=/tmp/seedrun/$name-repo; sc=/tmp/seedrun/$name-scratch
mkdir -p /tmp/seedrun; rm -rf $sc; git -C /repo worktree remove --force $wt >/dev/null 2>&1
git -C /repo worktree add --detach $wt HEAD >/dev/null 2>&1 || { echo "cannot create worktree"; exit 2; }
git -C $wt apply $d/patch.diff || { git -C /repo worktree remove --force $wt; exit 2; }
for p in "$@"; do
  out=$(cd "$(dirname "$0")/.." && VERIF_REPO=$wt VERIF_SCRATCH=$sc ./check $p ${TIER:-quick} 2>&1); rc=$?
  echo "$out" | grep -E "^VIOLATION|^INCONCLUSIVE|^KNOWN|^property=" | cut -c1-260 | head -6
  echo "SEED $name check=$p exit=$rc"
done
git -C /repo worktree remove --force $wt; rm -rf $sc
