#!/bin/sh
# usage: seedh.sh <seed-id> <PROP> <harness-name> [tier] [seconds] -- run ONE harness of a check against a seeded change on a scratch worktree
cd "$(dirname "$0")/.." || exit 2; V=$(pwd)
n=$1; p=$2; h=$3; tier=${4:-quick}; T=${5:-600}
export GOFLAGS=-mod=mod GOPROXY=off GOSUMDB=off GOTOOLCHAIN=local VERIF_DIR=$V
wt=/tmp/seedh/$n-$h-repo; sc=/tmp/seedh/$n-$h-scratch
mkdir -p /tmp/seedh; rm -rf $sc; git -C /repo worktree remove --force $wt >/dev/null 2>&1
git -C /repo worktree add --detach $wt HEAD >/dev/null 2>&1 || exit 2
[ "$n" = none ] || git -C $wt apply $V/seeded/$n/patch.diff || { git -C /repo worktree remove --force $wt; exit 2; }
SPEC=$(python3 -c "
import json
c=json.load(open('checks.json'))
for s in c['$p']['$tier']:
    if s['name']=='$h': print(json.dumps(s))
")
VERIF_REPO=$wt VERIF_SCRATCH=$sc timeout $T bin/gosym harness -spec "$SPEC" -out $sc/h.json 2>&1 | tail -5
python3 -c "
import json; r=json.load(open('$sc/h.json'))
for k in ['states','queries','solver_s','wall_s','inconclusive','unwinding_incomplete','spurious_models']: print(k, r.get(k))
for o in r['obligations'] or []:
    if o['Result']!='holds': print(o['ID'],o['Kind'],o['Result'],o['Confirmd'],o.get('Site'),o.get('Note'), json.dumps(o.get('Model'))[:600])
print('holds:', sum(1 for o in r['obligations'] or [] if o['Result']=='holds'))
for c in r['covers'] or []: print('cover',c['ID'],c['Reached'],c['Native'])
"
git -C /repo worktree remove --force $wt; rm -rf $sc
