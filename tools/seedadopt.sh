#!/bin/sh
# usage: seedadopt.sh <out-dir> <new-id>  -- confirm a sub-agent's change in a scratch worktree and, if confirmed, keep it as seeded/<new-id>
cd "$(dirname "$0")/.." || exit 2; V=$(pwd)
src=$1; id=$2
[ -f $src/patch.diff ] && [ -f $src/demo_test.go ] && [ -f $src/meta.json ] || { echo "incomplete $src"; exit 1; }
wt=/tmp/seedadopt-$id
git -C /repo worktree remove --force $wt >/dev/null 2>&1
git -C /repo worktree add --detach $wt HEAD >/dev/null 2>&1 || exit 2
sub=$(python3 -c "import json;print(json.load(open('$src/meta.json')).get('demo_dir','.'))")
mkdir -p /tmp/adopt-$id; cp $src/patch.diff $src/demo_test.go $src/meta.json /tmp/adopt-$id/
if tools/seedconfirm.sh /tmp/adopt-$id $wt $sub | grep -q '^CONFIRMED'; then
  mkdir -p seeded/$id; cp /tmp/adopt-$id/patch.diff /tmp/adopt-$id/demo_test.go seeded/$id/
  python3 -c "
import json
m=json.load(open('/tmp/adopt-$id/meta.json'))
m['confirmed_by']='tools/seedconfirm.sh in a scratch worktree: suite passes with the patch, demo fails with it and passes without it'
json.dump(m,open('seeded/$id/meta.json','w'),indent=1)
"
  echo "ADOPTED $id"
else
  echo "NOT CONFIRMED $id"; tools/seedconfirm.sh /tmp/adopt-$id $wt $sub
fi
git -C /repo worktree remove --force $wt; rm -rf /tmp/adopt-$id
