#!/usr/bin/env python3
"""Regenerates MANIFEST.json from tools/manifest_src.json (claimed checks + not_applicable reasons)."""
import json, os
here = os.path.dirname(os.path.abspath(__file__))
root = os.path.dirname(here)
src = json.load(open(os.path.join(here, "manifest_src.json")))
props = [json.loads(l)["id"] for l in open(os.path.join(root, "properties.jsonl"))]
checks = []
na = []
for pid in props:
    c = src["checks"].get(pid)
    if c:
        checks.append({
            "property_id": pid,
            "quick_cmd": "./check %s quick" % pid,
            "thorough_cmd": "./check %s thorough" % pid,
            "evidence_file": "evidence/%s.json" % pid,
            "replay_cmd_template": "./check --replay {path}",
            "engine": "gosym",
            "level_claimed": {"category": "model_checking", "text": c["text"], "design_ref": c.get("design_ref", "DESIGN.md section 6")},
            "level_note": c["note"],
            "technique": c.get("technique", "bounded symbolic execution of the go/ssa form of the real code; SMT (z3) decides each assertion over all nondet inputs within the stated bounds; models replayed natively"),
        })
    else:
        na.append({"property_id": pid, "reason": src["not_applicable"].get(pid, "check not built yet; see DESIGN.md section 9 build order")})
m = {
    "version": 1,
    "setup_cmd": "cd /verif/engine && GOFLAGS=-mod=mod GOPROXY=off GOSUMDB=off GOTOOLCHAIN=local go build -o ../bin/gosym .",
    "hooks": {
        "guard": "verif",
        "enable": "harness files are injected by go build overlay with -tags verif; /repo is not modified for hooks",
        "baseline_off_cmd": "cd /repo && go test -vet=off -count=1 ./...",
        "source_commits": [],
        "add_only": True,
    },
    "engines": [{
        "name": "gosym", "path": "engine", "serves_properties": [c["property_id"] for c in checks],
        "kind_free_text": "bounded symbolic executor over go/ssa of /repo's working tree, SMT-LIB2 to z3; native replay of every model",
    }],
    "checks": checks,
    "not_applicable": na,
    "notes": "see DESIGN.md",
}
json.dump(m, open(os.path.join(root, "MANIFEST.json"), "w"), indent=1)
print("checks:", [c["property_id"] for c in checks])
