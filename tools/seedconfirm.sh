#!/bin/sh
# usage: seedconfirm.sh <seed-dir> <worktree> [demo-subdir]   -- confirm a seeded change: tests pass with it, demo fails with it and passes without
export GOFLAGS=-mod=mod GOPROXY=off GOSUMDB=off GOTOOLCHAIN=local
d=$1; wt=$2; sub=${3:-.}
RACE=""; grep -q '"race_flag": *true' $d/meta.json 2>/dev/null && RACE="-race"
cd $wt && git checkout -q -- . && rm -f $sub/demo_test.go
git apply $d/patch.diff || { echo "CONFIRM-FAIL patch does not apply"; exit 1; }
go build ./... || { echo "CONFIRM-FAIL build"; git checkout -q -- .; exit 1; }
go test -vet=off -count=1 ./... >/tmp/sc.out 2>&1 || { echo "CONFIRM-FAIL suite fails with patch"; tail -5 /tmp/sc.out; git checkout -q -- .; exit 1; }
cp $d/demo_test.go $sub/demo_test.go
if go test $RACE -vet=off -count=1 ./$sub/ >/tmp/sc.out 2>&1; then echo "CONFIRM-FAIL demo passes with patch"; git checkout -q -- .; rm -f $sub/demo_test.go; exit 1; fi
git checkout -q -- .
go test $RACE -vet=off -count=1 ./$sub/ >/tmp/sc.out 2>&1 || { echo "CONFIRM-FAIL demo fails without patch"; tail -5 /tmp/sc.out; rm -f $sub/demo_test.go; exit 1; }
rm -f $sub/demo_test.go
echo "CONFIRMED $d"
