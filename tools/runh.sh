#!/bin/sh
# usage: tools/runh.sh '<spec json>' [seconds]  -- run one harness directly and summarise
export GOFLAGS=-mod=mod GOPROXY=off GOSUMDB=off GOTOOLCHAIN=local VERIF_DIR=/verif
(cd /verif/engine && go build -o ../bin/gosym .) || exit 2
T=${2:-120}
GOSYM_PPROF=/tmp/h.prof GOSYM_PPROF_S=$T /verif/bin/gosym harness -spec "$1" -out /tmp/h.json 2>&1 | tail -20
python3 -c "
import json; r=json.load(open('/tmp/h.json'))
for k in ['states','instrs','queries','solver_s','wall_s','inconclusive','unwinding_incomplete','spurious_models']: print(k, r.get(k))
for o in r['obligations'] or []:
    if o['Result']!='holds': print(o['ID'],o['Kind'],o['Result'],o['Confirmd'],o.get('Site'),o.get('Note'), json.dumps(o.get('Model'))[:1500])
print('holds:', sum(1 for o in r['obligations'] or [] if o['Result']=='holds'))
for c in r['covers'] or []: print('cover',c['ID'],c['Reached'],c['Native'])
"
