//go:build verif

package PKG

import (
	"encoding/json"
	"fmt"
	"os"
	"testing"
)

func TestVerifReplay(t *testing.T) {
	p := os.Getenv("VERIF_REPLAY_FILE")
	if p == "" {
		t.Skip("no VERIF_REPLAY_FILE")
	}
	b, err := os.ReadFile(p)
	if err != nil {
		t.Fatal(err)
	}
	var cases []verifCase
	if err := json.Unmarshal(b, &cases); err != nil {
		t.Fatal(err)
	}
	for i := range cases {
		for _, l := range verifRunCase(&cases[i]) {
			fmt.Println(l)
		}
	}
}
