//go:build verif

package PKG

// Nondeterministic-input support for verification harnesses. Every function here has two
// meanings: the gosym engine intercepts the call and produces a symbolic value; compiled
// natively (replay), the value is read from the assignment file named by VERIF_REPLAY_FILE.

import (
	"reflect"
	"encoding/hex"
	"fmt"
	"runtime"
	"strconv"
)

type verifVar struct {
	K   string `json:"k"`
	V   string `json:"v"`
	Len string `json:"len"`
}

type verifCase struct {
	ID      string              `json:"id"`
	Harness string              `json:"harness"`
	Vars    map[string]verifVar `json:"vars"`
	Params  map[string]int      `json:"params"`
}

type verifAbort struct{ why string }

var (
	verifCur       *verifCase
	verifFailed    []string
	verifCovered   []string
	verifHarnesses = map[string]func(){}
)

func verifReg(name string, f func()) bool { verifHarnesses[name] = f; return true }

func verifLookup(name string) (verifVar, bool) {
	if verifCur == nil {
		return verifVar{}, false
	}
	v, ok := verifCur.Vars[name]
	return v, ok
}

func verifU(name string) uint64 {
	v, ok := verifLookup(name)
	if !ok {
		return 0
	}
	if v.V == "true" {
		return 1
	}
	if v.V == "false" {
		return 0
	}
	if len(v.V) > 0 && v.V[0] == '-' {
		i, _ := strconv.ParseInt(v.V, 10, 64)
		return uint64(i)
	}
	u, _ := strconv.ParseUint(v.V, 10, 64)
	return u
}

// ndParam: a bound chosen by the check definition (checks.json), default def.
func ndParam(name string, def int) int {
	if verifCur != nil {
		if v, ok := verifCur.Params[name]; ok {
			return v
		}
	}
	return def
}

// ndSymbolic reports whether the harness runs inside the symbolic engine.
func ndSymbolic() bool { return false }

func ndBool(name string) bool     { return verifU(name) != 0 }
func ndUint8(name string) uint8   { return uint8(verifU(name)) }
func ndUint16(name string) uint16 { return uint16(verifU(name)) }
func ndUint32(name string) uint32 { return uint32(verifU(name)) }
func ndUint64(name string) uint64 { return verifU(name) }
func ndUint(name string) uint     { return uint(verifU(name)) }
func ndInt32(name string) int32   { return int32(verifU(name)) }
func ndInt(name string) int       { return int(verifU(name)) }

// ndBytes: an arbitrary non-nil byte slice (any length 0 <= n < 2^31).
func ndBytes(name string) []byte {
	v, ok := verifLookup(name)
	if !ok {
		return []byte{}
	}
	b, _ := hex.DecodeString(v.V)
	n, _ := strconv.Atoi(v.Len)
	if n > len(b) {
		// model length exceeded the extraction cap: pad
		if n > 1<<26 {
			n = 1 << 26
		}
		nb := make([]byte, n)
		copy(nb, b)
		b = nb
	}
	if b == nil {
		b = []byte{}
	}
	return b
}

// ndString: an arbitrary string of at most max bytes (bytes, not code points).
func ndString(name string, max int) string {
	v, ok := verifLookup(name)
	if !ok {
		return ""
	}
	b, _ := hex.DecodeString(v.V)
	if len(b) > max {
		b = b[:max]
	}
	return string(b)
}

// ndBytesEqual: content equality of two byte strings.
func ndBytesEqual(a, b []byte) bool { return string(a) == string(b) }

// ndWriteMark / ndWritesSince (symbolic only): number of stores, map updates and in-place
// appends performed by the code under test on memory that existed at the mark (globals
// included). Natively 0: the harness runs the operation from many goroutines under the race
// detector instead.
func ndWriteMark() int        { return 0 }
func ndWritesSince(m int) int { return 0 }

// ndPrefer: a soft preference for the counterexample models the solver returns (it never
// changes a verdict: only WHICH satisfying assignment is reported and replayed).
func ndPrefer(c bool) {}

// ndConcrete: the same value; symbolically the path is split per feasible value (<= 64) so
// that what depends on it (offsets, lengths) is concrete on each path.
func ndConcrete(x int) int { return x }

// ndReaches: (symbolic only) some object reachable from root holds a slice or pointer into
// buf's backing store. Natively false: the harness overwrites the buffer instead and
// compares what it can observe.
func ndReaches(root interface{}, buf []byte) bool { return false }

// ndShares: some mutable memory is reachable from both a and b. Symbolic: the engine
// intersects the two reachable object sets. Native: an independent walk over both object
// graphs by reflection (pointers, slices, maps, interfaces, unexported fields included)
// collecting the addresses of everything pointed to; a common address is shared state.
func ndShares(a, b interface{}) bool {
	sa, sb := map[uintptr]bool{}, map[uintptr]bool{}
	verifWalkPtrs(reflect.ValueOf(a), sa, 0)
	verifWalkPtrs(reflect.ValueOf(b), sb, 0)
	for p := range sa {
		if sb[p] {
			return true
		}
	}
	return false
}

func verifWalkPtrs(v reflect.Value, seen map[uintptr]bool, depth int) {
	if !v.IsValid() || depth > 40 {
		return
	}
	switch v.Kind() {
	case reflect.Pointer:
		if v.IsNil() || seen[v.Pointer()] {
			return
		}
		if v.Type().Elem().Size() == 0 {
			return // all zero-size objects share one address
		}
		seen[v.Pointer()] = true
		verifWalkPtrs(v.Elem(), seen, depth+1)
	case reflect.Interface:
		if !v.IsNil() {
			verifWalkPtrs(v.Elem(), seen, depth+1)
		}
	case reflect.Slice:
		if v.IsNil() || v.Cap() == 0 {
			return
		}
		seen[v.Pointer()] = true
		switch v.Type().Elem().Kind() {
		case reflect.Pointer, reflect.Interface, reflect.Slice, reflect.Map, reflect.Struct, reflect.Array:
			for i := 0; i < v.Len(); i++ {
				verifWalkPtrs(v.Index(i), seen, depth+1)
			}
		}
	case reflect.Map:
		if v.IsNil() {
			return
		}
		seen[v.Pointer()] = true
		it := v.MapRange()
		for it.Next() {
			verifWalkPtrs(it.Value(), seen, depth+1)
		}
	case reflect.Struct:
		for i := 0; i < v.NumField(); i++ {
			verifWalkPtrs(v.Field(i), seen, depth+1)
		}
	case reflect.Array:
		for i := 0; i < v.Len(); i++ {
			verifWalkPtrs(v.Index(i), seen, depth+1)
		}
	}
}

// ndFakeLenInts: a []int of length n. Symbolically n stays symbolic and the elements do not
// exist (they must not be read: use with ndAtFirstLoop); natively the slice is 0..n-1.
func ndFakeLenInts(n int) []int {
	s := make([]int, n)
	for i := range s {
		s[i] = i
	}
	return s
}

// ndAtFirstLoop runs f. Symbolically, execution of the function named fn is CUT when it first
// arrives at a loop header: the []byte value flowing into that loop is returned with
// cut=true (what the function has produced "so far"). Natively f simply runs to completion
// and (nil, false) is returned: the harness then inspects the complete result instead.
func ndAtFirstLoop(fn string, f func()) (sofar []byte, cut bool) {
	f()
	return nil, false
}

// ndCopyBytes: a fresh copy of b.
func ndCopyBytes(b []byte) []byte { return append([]byte{}, b...) }

// ndAllocMark / ndAllocSince: bytes requested by allocation sites of the code under test
// (symbolic: sum over own-code make() sites; native: runtime.MemStats.TotalAlloc delta).
func ndAllocMark() uint64 {
	var m runtime.MemStats
	runtime.ReadMemStats(&m)
	return m.TotalAlloc
}

func ndAllocSince(mark uint64) uint64 {
	var m runtime.MemStats
	runtime.ReadMemStats(&m)
	return m.TotalAlloc - mark
}

// verifSameBytes: a and b are the same byte string (length and content).
func verifSameBytes(a, b []byte) bool {
	if len(a) != len(b) {
		return false
	}
	return ndBytesEqual(a, b)
}

// ndName builds an indexed variable name.
func ndName(prefix string, i int) string { return prefix + "[" + strconv.Itoa(i) + "]" }

// ndOpt returns p or nil (nondeterministically; variable `name` true = present).
func ndOpt[T any](name string, p *T) *T {
	if verifU(name) != 0 {
		return p
	}
	return nil
}

func ndAssume(c bool) {
	if !c {
		panic(verifAbort{"assume"})
	}
}

func ndAssert(id string, c bool) {
	if !c {
		verifFailed = append(verifFailed, id)
	}
}

func ndCover(id string, c bool) {
	if c {
		verifCovered = append(verifCovered, id)
	}
}

// ndCoverSym: a cover that refers to stub-internal ghost state (exists only symbolically);
// natively it is enough that the model's run completes.
func ndCoverSym(id string, c bool) {}

// ndTry runs f and reports whether it panicked.
func ndTry(f func()) (panicked bool) {
	defer func() {
		if r := recover(); r != nil {
			if a, ok := r.(verifAbort); ok {
				panic(a)
			}
			panicked = true
		}
	}()
	f()
	return false
}

// verifCaseReset (set by a package's harness files) restores process-global state of the code
// under test before each replayed case: all cases of a batch share one process
var verifCaseReset func()

func verifRunCase(c *verifCase) (out []string) {
	verifCur = c
	if verifCaseReset != nil {
		verifCaseReset()
	}
	verifFailed = nil
	verifCovered = nil
	// (printed at once, so that anything the runtime reports while the case runs, e.g. the race
	// detector, is attributed to this case)
	fmt.Println("VERIF-BEGIN " + c.ID)
	f, ok := verifHarnesses[c.Harness]
	if !ok {
		// "<registered name>-<variant>": variants differ only in their parameters
		for i := 0; i < len(c.Harness); i++ {
			if c.Harness[i] == '-' {
				f, ok = verifHarnesses[c.Harness[:i]]
				break
			}
		}
	}
	if !ok {
		out = append(out, "VERIF-NOHARNESS "+c.Harness)
		return out
	}
	func() {
		defer func() {
			if r := recover(); r != nil {
				if _, ok := r.(verifAbort); ok {
					out = append(out, "VERIF-ASSUME-FAILED")
					return
				}
				out = append(out, "VERIF-PANIC "+fmt.Sprint(r))
			}
		}()
		f()
	}()
	for _, id := range verifFailed {
		out = append(out, "VERIF-FAIL "+id)
	}
	for _, id := range verifCovered {
		out = append(out, "VERIF-COVER "+id)
	}
	out = append(out, "VERIF-END "+c.ID)
	return out
}
