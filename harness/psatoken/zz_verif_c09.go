//go:build verif

package psatoken

import "unicode/utf8"

// C10: emitted CBOR is exactly the profile's wire format.
// C09: CBOR encode/decode is the identity on claims and stable on bytes.
// Both over the L3 item model (zz_verif_l3.go).

var _ = verifReg("C10", VerifC10)
var _ = verifReg("C09", VerifC09)
var _ = verifReg("C09inv", VerifC09inv)

// ---------- the wire tables (literals from the property statement) ----------

type wireEntry struct {
	present bool // the claim is set (absent optional claims are listed with present=false)
	key  int64
	kind int
	u    uint64 // uint value / nint n
	b    []byte
	s    string
	list *genSws // kind == ikArray: the component list
}

func wireInt(key int64, v int64, present bool) wireEntry {
	e := wireEntry{present: present, key: key, kind: wireIntKind(v), u: wireIntU(v)}
	return e
}

func wireIntKind(v int64) int {
	if v >= 0 {
		return ikUint
	}
	return ikNint
}

func wireIntU(v int64) uint64 {
	if v >= 0 {
		return uint64(v)
	}
	return uint64(-1 - v)
}

// wire: the profile's wire table for a VALID generated claims-set (every key of the profile,
// with present=false for optional claims that are not set)
func (g *genP1) wire() []wireEntry { return g.wireAny() }
func (g *genP2) wire() []wireEntry { return g.wireAny() }
func (g *genSw) wire() []wireEntry { return g.wireAny() }

// wireMatches: the item is a map holding PRECISELY the table's keys (no more, no fewer, no
// duplicates), each with the table's CBOR type and exact value; nothing is null.
func wireMatches(it *vItem, w []wireEntry) bool {
	if it == nil || it.kind != ikMap {
		return false
	}
	// every present entry of the item carries a key of the table (no foreign keys) ...
	for i, k := range it.keys {
		if !it.has[i] {
			continue
		}
		known := false
		for _, e := range w {
			if e.key == k {
				known = true
			}
		}
		if !known {
			return false
		}
	}
	// ... and every table key is present exactly when the claim is set, once, with the right item
	for _, e := range w {
		n := 0
		for i, k := range it.keys {
			if k == e.key && it.has[i] {
				n++
			}
		}
		if e.present {
			c, _ := it.get(e.key)
			if n != 1 || !wireEntryMatches(c, e) {
				return false
			}
		} else if n != 0 {
			return false
		}
	}
	return true
}

func wireEntryMatches(c *vItem, e wireEntry) bool {
	if c == nil || c.kind != e.kind {
		return false
	}
	switch e.kind {
	case ikUint, ikNint:
		return c.u == e.u
	case ikBstr:
		return verifSameBytes(c.b, e.b)
	case ikTstr:
		return c.s == e.s
	case ikArray:
		if len(c.elems) != e.list.count() {
			return false
		}
		for i, gc := range e.list.comps {
			if !wireMatches(c.elems[i], gc.wire()) {
				return false
			}
		}
		return true
	}
	return false
}

// verifGenValid: an arbitrary VALID claims-set of the selected profile and its wire table
func verifGenValid() (IClaims, []wireEntry, *genP1, *genP2) {
	c, g1, g2 := verifGenClaims()
	if g1 != nil {
		ndAssume(g1.specValid())
		// (implied by the line above; stated as literals so that the path knows them)
		ndAssume(g1.hasClientID)
		ndAssume(g1.hasLC)
		ndAssume(g1.hasImplID)
		ndAssume(g1.hasBoot)
		ndAssume(g1.hasNonce)
		ndAssume(g1.hasInstID)
		return c, g1.wire(), g1, nil
	}
	ndAssume(g2.specValid())
	ndAssume(g2.hasClientID)
	ndAssume(g2.hasLC)
	ndAssume(g2.hasImplID)
	ndAssume(g2.hasNonce)
	ndAssume(g2.hasInstID)
	ndAssume(g2.profKind == 2)
	return c, g2.wire(), nil, g2
}

func VerifC10() {
	l3install()
	c, w, _, _ := verifGenValid()
	buf, err := ValidateAndEncodeClaimsToCBOR(c)
	ndAssert("c10-valid-claims-encode", err == nil && !verifL3.err)
	if err != nil {
		return
	}
	ndAssert("c10-wire-format-built", wireMatches(verifParseItem(buf), w))
	// the same claims obtained by DECODING that encoding emit the same wire format
	dec, derr := DecodeClaimsFromCBOR(buf)
	if derr != nil {
		return // whether the own output decodes is C09's subject (known finding C09-text-not-utf8)
	}
	buf2, err2 := ValidateAndEncodeClaimsToCBOR(dec)
	ndAssert("c10-wire-format-decoded", err2 == nil && wireMatches(verifParseItem(buf2), w))
	ndCover("c10-ran", true)
}

// itemEq: structural equality of two items
func itemEq(a, b *vItem) bool {
	if a == nil || b == nil || a.kind != b.kind {
		return a == b
	}
	switch a.kind {
	case ikUint, ikNint:
		return a.u == b.u
	case ikBstr:
		return verifSameBytes(a.b, b.b)
	case ikTstr:
		return a.s == b.s
	case ikArray:
		if len(a.elems) != len(b.elems) {
			return false
		}
		for i := range a.elems {
			if !itemEq(a.elems[i], b.elems[i]) {
				return false
			}
		}
	case ikMap:
		// same entries in the same order (both come from the same struct walk)
		if len(a.elems) != len(b.elems) {
			return false
		}
		for i := range a.elems {
			if a.keys[i] != b.keys[i] || a.has[i] != b.has[i] || (a.has[i] && !itemEq(a.elems[i], b.elems[i])) {
				return false
			}
		}
	}
	return true
}

// c09textOK: every text claim of the generated set is valid UTF-8
func c09textOK(g1 *genP1, g2 *genP2) bool {
	var sw *genSws
	ok := true
	if g1 != nil {
		sw = g1.sw
		ok = utf8.ValidString(g1.vsi) && utf8.ValidString(g1.certRef)
	} else {
		sw = g2.sw
		ok = utf8.ValidString(g2.vsi) && utf8.ValidString(g2.certRef)
	}
	for _, c := range sw.comps {
		ok = ok && utf8.ValidString(c.mt) && utf8.ValidString(c.ver) && utf8.ValidString(c.desc)
	}
	return ok
}

func VerifC09() {
	l3install()
	c, _, g1, g2 := verifGenValid()
	if ndParam("kf.text-not-utf8", 0) == 1 {
		// known finding C09-text-not-utf8 (known_findings.json): its region is assumed away,
		// everything else is still decided
		ndAssume(c09textOK(g1, g2))
	}
	buf, err := EncodeClaimsToCBOR(c)
	ndAssert("c09-valid-claims-encode", err == nil && !verifL3.err)
	if err != nil {
		return
	}
	dec, derr := DecodeClaimsFromCBOR(buf)
	ndAssert("c09-own-output-decodes", derr == nil)
	if derr != nil {
		return
	}
	ndAssert("c09-decode-encode-is-identity-on-getters", obsSame(obsOf(dec), obsOf(c), -1))
	buf2, err2 := EncodeClaimsToCBOR(dec)
	ndAssert("c09-re-encoding-is-stable", err2 == nil && c09sameEncoding(buf, buf2))
	ndCover("c09-ran", true)
}

// c09sameEncoding: identical bytes (native) / structurally identical item with the same key order (model)
func c09sameEncoding(a, b []byte) bool {
	if !ndSymbolic() {
		return verifSameBytes(a, b)
	}
	return itemEq(l3lookup(a), l3lookup(b))
}

// C09, second clause: a claims-set that DECODED without error (valid or not) either
// re-encodes to bytes that decode to the same getter results, or the encoder returns an error
func VerifC09inv() {
	l3install()
	T, _, g2, focus, _, _, _ := c04token()
	T.put(99999, &vItem{kind: ikUint, u: 7}, ndBool("extra.key"))
	buf := verifEncodeItem(T)
	dec, err := DecodeClaimsFromCBOR(buf)
	if err != nil {
		if focus >= 0 {
			ndCover("c09inv-undecodable", true)
		}
		return
	}
	valid := verifValid(dec)
	buf2, err2 := EncodeClaimsToCBOR(dec)
	if err2 != nil {
		ndCover("c09inv-encoder-refuses", true)
		return
	}
	dec2, derr2 := DecodeClaimsFromCBOR(buf2)
	ndAssert("c09-invalid-reencoding-decodes", derr2 == nil)
	if derr2 != nil {
		return
	}
	ndAssert("c09-invalid-reencoding-decodes-to-the-same-getter-results", obsSame(obsOf(dec2), obsOf(dec), -1))
	buf3, err3 := EncodeClaimsToCBOR(dec2)
	ndAssert("c09-invalid-reencoding-is-stable", err3 == nil && c09sameEncoding(buf2, buf3))
	ndCover("c09inv-invalid-roundtrip", !valid)
	if !(g2 != nil && focus == 6) {
		// (profile 2 with the component-list key in focus: nothing of that token space is valid)
		ndCover("c09inv-valid-roundtrip", valid)
	}
}
