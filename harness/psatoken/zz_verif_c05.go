//go:build verif

package psatoken

// C05 part 1: whatever a decode entry point returns without error can be validated, read
// through every getter, re-encoded to CBOR and JSON and verified against any key without
// panicking. The post-decode state is ANY value the decoder contract can produce for the
// destination types (incl. nil list elements, nil container, zero-value profile, empty nonce
// list). Natively the state is obtained by really decoding the real encoding of the model.

var _ = verifReg("C05dec", VerifC05dec)

func VerifC05dec() {
	verifInstallStubs()
	verifGenNilElems = true
	c, g1, g2 := verifGenClaims()
	verifGenNilElems = false
	asJSON := ndParam("json", 0) == 1
	buf := verifDecodeInput(c, g1, g2, asJSON)
	var dec IClaims
	var err error
	if asJSON {
		dec, err = DecodeClaimsFromJSON(buf)
	} else {
		dec, err = DecodeClaimsFromCBOR(buf)
	}
	if err != nil {
		return
	}
	// implicit obligations: no instruction of the repo's own code panics below
	// (each call runs inside c05do so that its results do not outlive it: paths merge)
	c05do(func() { _ = dec.Validate() })
	c05do(func() { _, _ = dec.GetProfile() })
	c05do(func() { _, _ = dec.GetClientID() })
	c05do(func() { _, _ = dec.GetSecurityLifeCycle() })
	c05do(func() { _, _ = dec.GetImplID() })
	c05do(func() { _, _ = dec.GetBootSeed() })
	c05do(func() { _, _ = dec.GetCertificationReference() })
	c05do(func() { _, _ = dec.GetSoftwareComponents() })
	c05do(func() { _, _ = dec.GetNonce() })
	c05do(func() { _, _ = dec.GetInstID() })
	c05do(func() { _, _ = dec.GetVSI() })
	c05do(func() { _, _ = EncodeClaimsToCBOR(dec) })
	c05do(func() { _, _ = EncodeClaimsToJSON(dec) })
	c05do(func() { _, _ = ValidateAndEncodeClaimsToCBOR(dec) })
	c05do(func() { _, _ = ValidateAndEncodeClaimsToJSON(dec) })
	e := &Evidence{Claims: dec}
	c05do(func() { _ = e.GetInstanceID() })
	c05do(func() { _ = e.GetImplementationID() })
	c05do(func() { _, _ = e.MarshalJSON() })
	c05do(func() { _ = e.Verify(nil) })
	ndCover("c05-decoded-valid-state-exercised", verifValid(dec))
}

func c05do(f func()) { f() }
