//go:build verif

package psatoken

// C05 part 1: whatever a decode entry point returns without error can be validated, read
// through every getter, re-encoded to CBOR and JSON and verified against any key without
// panicking. The post-decode state is ANY value the decoder contract can produce for the
// destination types (incl. nil list elements, nil container, zero-value profile, empty nonce
// list). Natively the state is obtained by really decoding the real encoding of the model.

var _ = verifReg("C05dec", VerifC05dec)

func VerifC05dec() {
	verifInstallStubs()
	verifGenNilElems = true
	c, g1, g2 := verifGenClaims()
	verifGenNilElems = false
	asJSON := ndParam("json", 0) == 1
	buf := verifDecodeInput(c, g1, g2, asJSON)
	var dec IClaims
	var err error
	if asJSON {
		dec, err = DecodeClaimsFromJSON(buf)
	} else {
		dec, err = DecodeClaimsFromCBOR(buf)
	}
	if err != nil {
		return
	}
	// implicit obligations: no instruction of the repo's own code panics below
	_ = dec.Validate()
	_, _ = dec.GetProfile()
	_, _ = dec.GetClientID()
	_, _ = dec.GetSecurityLifeCycle()
	_, _ = dec.GetImplID()
	_, _ = dec.GetBootSeed()
	_, _ = dec.GetCertificationReference()
	_, _ = dec.GetSoftwareComponents()
	_, _ = dec.GetNonce()
	_, _ = dec.GetInstID()
	_, _ = dec.GetVSI()
	_, _ = EncodeClaimsToCBOR(dec)
	_, _ = EncodeClaimsToJSON(dec)
	_, _ = ValidateAndEncodeClaimsToCBOR(dec)
	_, _ = ValidateAndEncodeClaimsToJSON(dec)
	e := &Evidence{Claims: dec}
	_ = e.GetInstanceID()
	_ = e.GetImplementationID()
	_, _ = e.MarshalJSON()
	_ = e.Verify(nil)
	ndCover("c05-decoded-state-exercised", true)
}
