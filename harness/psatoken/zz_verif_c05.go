//go:build verif

package psatoken

import "encoding/json"

// C05 part 1: whatever a decode entry point returns without error can be validated, read
// through every getter, re-encoded to CBOR and JSON and verified against any key without
// panicking. The post-decode state is ANY value the decoder contract can produce for the
// destination types (incl. nil list elements, nil container, zero-value profile, empty nonce
// list). Natively the state is obtained by really decoding the real encoding of the model.

var _ = verifReg("C05dec", VerifC05dec)

func VerifC05dec() {
	verifInstallStubs()
	verifGenNilElems = true
	c, g1, g2 := verifGenClaims()
	verifGenNilElems = false
	asJSON := ndParam("json", 0) == 1
	verifJSONNullSw = true
	buf := verifDecodeInput(c, g1, g2, asJSON)
	var dec IClaims
	var err error
	if asJSON {
		dec, err = DecodeClaimsFromJSON(buf)
	} else {
		dec, err = DecodeClaimsFromCBOR(buf)
	}
	if err != nil {
		return
	}
	// implicit obligations: no instruction of the repo's own code panics below
	// (each call runs inside c05do so that its results do not outlive it: paths merge)
	c05do(func() { _ = dec.Validate() })
	c05do(func() { _, _ = dec.GetProfile() })
	c05do(func() { _, _ = dec.GetClientID() })
	c05do(func() { _, _ = dec.GetSecurityLifeCycle() })
	c05do(func() { _, _ = dec.GetImplID() })
	c05do(func() { _, _ = dec.GetBootSeed() })
	c05do(func() { _, _ = dec.GetCertificationReference() })
	c05do(func() { _, _ = dec.GetSoftwareComponents() })
	c05do(func() { _, _ = dec.GetNonce() })
	c05do(func() { _, _ = dec.GetInstID() })
	c05do(func() { _, _ = dec.GetVSI() })
	c05do(func() { _, _ = EncodeClaimsToCBOR(dec) })
	c05do(func() { _, _ = EncodeClaimsToJSON(dec) })
	c05do(func() { _, _ = ValidateAndEncodeClaimsToCBOR(dec) })
	c05do(func() { _, _ = ValidateAndEncodeClaimsToJSON(dec) })
	e := &Evidence{Claims: dec}
	c05do(func() { _ = e.GetInstanceID() })
	c05do(func() { _ = e.GetImplementationID() })
	c05do(func() { _, _ = e.MarshalJSON() })
	c05do(func() { _ = e.Verify(nil) })
	ndCover("c05-decoded-valid-state-exercised", verifValid(dec))
}

func c05do(f func()) { f() }

var _ = verifReg("C05jsonmap", VerifC05jsonmap)

// verifJSONValue: an arbitrary decoded JSON value of depth <= 1 (what encoding/json stores in
// an interface{}): nil, bool, float64, string, []interface{}, map[string]interface{}
func verifJSONValue(name string) (interface{}, string) {
	switch ndConcrete(verifChoice(name+".jsonkind", 6)) {
	case 0:
		return nil, "null"
	case 1:
		return ndBool(name + ".bool"), "true"
	case 2:
		return float64(7), "7" // (a one-character literal: the shortest value there is)
	case 3:
		return verifProfileNames[ndConcrete(verifChoice(name+".str", 4))], ""
	case 4:
		return []interface{}{"x"}, `["x"]`
	}
	return map[string]interface{}{"k": "v"}, `{"k":"v"}`
}

// DecodeClaimsFromJSON on a top-level object whose profile members hold ARBITRARY JSON value kinds
func VerifC05jsonmap() {
	verifInstallStubs()
	m := map[string]interface{}{}
	raw := map[string]json.RawMessage{"other": json.RawMessage("1")}
	doc := `{"other":1`
	for _, tag := range []string{"psa-profile", "eat-profile"} {
		if ndBool(tag + ".present") {
			v, lit := verifJSONValue(tag)
			m[tag] = v
			if s, ok := v.(string); ok {
				lit = `"` + s + `"`
			} else if b, ok := v.(bool); ok && !b {
				lit = "false"
			}
			doc += `,"` + tag + `":` + lit
			raw[tag] = json.RawMessage(lit)
		}
	}
	doc += "}"
	verifStub.jsonMap = m
	verifStub.jsonRaw = raw // the same object for a decoder that keeps the member values undecoded
	verifStub.p1 = genP1Claims(0, 4)
	verifGenPfx = "q."
	verifStub.p2 = genP2Claims(1, 4, 1)
	verifGenPfx = ""
	buf := []byte(doc)
	c, err := DecodeClaimsFromJSON(buf) // implicit obligation: no own-code panic
	if err == nil {
		c05do(func() { _ = c.Validate() })
	}
	ndCover("c05-jsonmap-ran", true)
}
