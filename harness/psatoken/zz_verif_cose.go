//go:build verif

package psatoken

// L5: go-cose and crypto under an IDEAL-SIGNATURE model (symbolic mode only).
//
// Executed for real (plain Go of go-cose): NewSign1Message, Sign1Message.Sign / Verify,
// Headers.ensureSigningAlgorithm / ensureVerificationAlgorithm, ProtectedHeader.Algorithm /
// SetAlgorithm, Algorithm.String.
// Contracts written here and run by the engine instead of the library code:
//   toBeSigned(ext)        -> a handle to the record (protected alg, raw protected, ext, payload)
//   cose.Signer / Verifier -> harness types: a signature verifies iff it is byte-equal to one an
//                             honest signer produced with the matching key and algorithm over an
//                             equal to-be-signed record (EUF-CMA idealisation)
//   NewVerifier(alg, key)  -> algorithm family x key kind table of go-cose v1.3.0-rc.1
//   MarshalCBOR            -> error on empty signature, else a fresh token recorded with its message
//   UnmarshalCBOR(data)    -> the recorded message if data IS a recorded token; otherwise whatever
//                             the harness scripted for attacker-made bytes (error / arbitrary message)
// Nothing is claimed about real ECDSA/EdDSA/RSA-PSS nor about which bytes go-cose parses.
// Natively none of this is used: real go-cose with real P-256 keys runs.

import (
	"crypto"
	"crypto/ecdsa"
	"crypto/ed25519"
	"crypto/elliptic"
	"crypto/rand"
	"crypto/rsa"
	"errors"
	"io"

	cose "github.com/veraison/go-cose"
)

type verifTBSRec struct {
	hasAlg  bool
	alg     int64
	rawProt []byte
	ext     []byte
	payload []byte
}

type verifSigRec struct {
	key int
	alg cose.Algorithm
	tbs int
	sig []byte
}

type verifTokRec struct {
	bytes []byte
	msg   cose.Sign1Message
}

type verifCoseState struct {
	lastData []byte // the buffer most recently handed to Sign1Message.UnmarshalCBOR
	tbs     []verifTBSRec
	sigs    []verifSigRec
	toks    []verifTokRec
	decoded *cose.Sign1Message // what attacker-made bytes decode to (nil = decode error)
	nsig    int
	ntok    int
}

var verifCose verifCoseState

func verifCoseReset() { verifCose = verifCoseState{} }

func verifCoseTBS(m *cose.Sign1Message, external []byte) ([]byte, error) {
	alg, err := m.Headers.Protected.Algorithm()
	rec := verifTBSRec{hasAlg: err == nil, alg: int64(alg), rawProt: m.Headers.RawProtected, ext: external, payload: m.Payload}
	idx := len(verifCose.tbs)
	verifCose.tbs = append(verifCose.tbs, rec)
	return []byte{byte(idx)}, nil
}

// verifCanonProt: the bytes go-cose serialises a locally built protected header to: an
// (arbitrary but fixed, non-empty) byte string per algorithm value; the empty header is h''.
func verifCanonProt(hasAlg bool, alg int64) []byte {
	if !hasAlg {
		return []byte{}
	}
	if alg == int64(cose.AlgorithmES256) {
		b := ndBytes("canon.prot.es256")
		ndAssume(len(b) > 0)
		return b
	}
	b := ndBytes("canon.prot.other")
	ndAssume(len(b) > 0)
	return b
}

// effective protected bytes: what the signature really covers (RFC 9052: the bytes as
// received when the header was decoded, the canonical serialisation when built locally)
func (r verifTBSRec) prot() []byte {
	if r.rawProt != nil {
		return r.rawProt
	}
	return verifCanonProt(r.hasAlg, r.alg)
}

func verifTBSEq(a, b verifTBSRec) bool {
	return verifSameBytes(a.prot(), b.prot()) && verifSameBytes(a.ext, b.ext) && verifSameBytes(a.payload, b.payload)
}

// keys: kind 0 = EC, 1 = RSA, 2 = Ed25519
type verifKey struct{ id, kind int }

var errSignerFault = errors.New("signer fault")

// verifSigner: fault 0 = honest, 1 = returns an error, 2 = returns no signature bytes
type verifSigner struct {
	key   verifKey
	alg   cose.Algorithm
	fault int
}

func (s verifSigner) Algorithm() cose.Algorithm { return s.alg }

func (s verifSigner) Sign(r io.Reader, content []byte) ([]byte, error) {
	switch s.fault {
	case 1:
		return nil, errSignerFault
	case 2:
		return []byte{}, nil
	}
	sig := ndBytes(ndName("sig", verifCose.nsig))
	verifCose.nsig++
	ndAssume(len(sig) > 0)
	// ideal signature: injective in (key, algorithm, to-be-signed)
	for _, r := range verifCose.sigs {
		same := r.key == s.key.id && r.alg == s.alg && verifTBSEq(verifCose.tbs[r.tbs], verifCose.tbs[int(content[0])])
		ndAssume(same || !verifSameBytes(sig, r.sig))
	}
	verifCose.sigs = append(verifCose.sigs, verifSigRec{key: s.key.id, alg: s.alg, tbs: int(content[0]), sig: sig})
	return sig, nil
}

type verifVerifier struct {
	key verifKey
	alg cose.Algorithm
}

func (v verifVerifier) Algorithm() cose.Algorithm { return v.alg }

func (v verifVerifier) Verify(content, signature []byte) error {
	t := verifCose.tbs[int(content[0])]
	for _, r := range verifCose.sigs {
		if r.key == v.key.id && r.alg == v.alg && verifSameBytes(signature, r.sig) && verifTBSEq(verifCose.tbs[r.tbs], t) {
			return nil
		}
	}
	return cose.ErrVerification
}

func verifAlgKind(alg cose.Algorithm) int {
	switch alg {
	case cose.AlgorithmES256, cose.AlgorithmES384, cose.AlgorithmES512:
		return 0
	case cose.AlgorithmPS256, cose.AlgorithmPS384, cose.AlgorithmPS512:
		return 1
	case cose.AlgorithmEdDSA:
		return 2
	}
	return -1
}

func verifCoseNewVerifier(alg cose.Algorithm, key crypto.PublicKey) (cose.Verifier, error) {
	kind := verifAlgKind(alg)
	if kind < 0 {
		return nil, cose.ErrAlgorithmNotSupported
	}
	k, ok := key.(verifKey)
	if !ok || k.kind != kind {
		return nil, cose.ErrInvalidPubKey
	}
	return verifVerifier{key: k, alg: alg}, nil
}

func verifCoseMarshal(m *cose.Sign1Message) ([]byte, error) {
	if m == nil {
		return nil, errors.New("cbor: MarshalCBOR on nil Sign1Message pointer")
	}
	if len(m.Signature) == 0 {
		return nil, cose.ErrEmptySignature
	}
	out := ndBytes(ndName("token", verifCose.ntok))
	verifCose.ntok++
	ndAssume(len(out) > 0)
	verifCose.toks = append(verifCose.toks, verifTokRec{bytes: out, msg: *m})
	return out, nil
}

func verifCoseUnmarshal(m *cose.Sign1Message, data []byte) error {
	if m == nil {
		return errors.New("cbor: UnmarshalCBOR on nil Sign1Message pointer")
	}
	verifCose.lastData = data
	for _, t := range verifCose.toks {
		if verifIsSameBuffer(data, t.bytes) {
			*m = t.msg
			if m.Headers.RawProtected == nil {
				alg, err := m.Headers.Protected.Algorithm()
				m.Headers.RawProtected = verifCanonProt(err == nil, int64(alg))
			}
			return nil
		}
	}
	if verifCose.decoded == nil || len(data) == 0 {
		return errors.New("cbor: invalid COSE_Sign1_Tagged object")
	}
	*m = *verifCose.decoded
	return nil
}

// verifIsSameBuffer: a and b are the very same byte string object (not merely equal content).
func verifIsSameBuffer(a, b []byte) bool {
	return len(a) > 0 && len(a) == len(b) && &a[0] == &b[0]
}

// ---------- the "world": keys and signers, ideal (symbolic) or real (native) ----------

// key i has kind i%3 (0 EC, 1 RSA, 2 Ed25519); natively real keys are generated lazily.
type verifWorld struct {
	real map[int]crypto.Signer
}

func verifNewWorld(nkeys int) *verifWorld {
	w := &verifWorld{real: map[int]crypto.Signer{}}
	if ndSymbolic() {
		verifCoseReset()
	}
	return w
}

// verifAlgs: the algorithms go-cose v1.3.0-rc.1 can sign with
var verifAlgs = []cose.Algorithm{cose.AlgorithmES256, cose.AlgorithmES384, cose.AlgorithmES512,
	cose.AlgorithmPS256, cose.AlgorithmPS384, cose.AlgorithmPS512, cose.AlgorithmEdDSA}

func (w *verifWorld) realKey(i int, alg cose.Algorithm) crypto.Signer {
	id := i*100 + int(alg&0xff)
	if k, ok := w.real[id]; ok {
		return k
	}
	var k crypto.Signer
	var err error
	switch alg {
	case cose.AlgorithmES256:
		k, err = ecdsa.GenerateKey(elliptic.P256(), rand.Reader)
	case cose.AlgorithmES384:
		k, err = ecdsa.GenerateKey(elliptic.P384(), rand.Reader)
	case cose.AlgorithmES512:
		k, err = ecdsa.GenerateKey(elliptic.P521(), rand.Reader)
	case cose.AlgorithmPS256, cose.AlgorithmPS384, cose.AlgorithmPS512:
		k, err = rsa.GenerateKey(rand.Reader, 2048)
	case cose.AlgorithmEdDSA:
		_, k, err = ed25519.GenerateKey(rand.Reader)
	default:
		k, err = ecdsa.GenerateKey(elliptic.P256(), rand.Reader)
	}
	if err != nil {
		panic(verifAbort{"keygen"})
	}
	w.real[id] = k
	return k
}

type verifFaultySigner struct {
	inner cose.Signer
	fault int
}

func (s verifFaultySigner) Algorithm() cose.Algorithm { return s.inner.Algorithm() }
func (s verifFaultySigner) Sign(r io.Reader, content []byte) ([]byte, error) {
	switch s.fault {
	case 1:
		return nil, errSignerFault
	case 2:
		return []byte{}, nil
	}
	return s.inner.Sign(r, content)
}

type verifAlgSigner struct {
	inner cose.Signer
	alg   cose.Algorithm
}

func (s verifAlgSigner) Algorithm() cose.Algorithm                  { return s.alg }
func (s verifAlgSigner) Sign(r io.Reader, c []byte) ([]byte, error) { return s.inner.Sign(r, c) }

// signerAlg: honest signer for key i and algorithm alg with an injected fault
// (0 none, 1 returns an error, 2 returns no signature bytes, 3 reports an algorithm value
// unknown to go-cose).
func (w *verifWorld) signerAlg(i int, alg cose.Algorithm, fault int) cose.Signer {
	if ndSymbolic() {
		a := alg
		f := fault
		if fault == 3 {
			a = cose.Algorithm(-99999)
			f = 0
		}
		return verifSigner{key: verifKey{id: i, kind: verifAlgKind(alg)}, alg: a, fault: f}
	}
	s, err := cose.NewSigner(alg, w.realKey(i, alg))
	if err != nil {
		panic(verifAbort{"signer"})
	}
	if fault == 3 {
		return verifAlgSigner{inner: s, alg: cose.Algorithm(-99999)}
	}
	return verifFaultySigner{inner: s, fault: fault}
}

func (w *verifWorld) signer(i, fault int) cose.Signer { return w.signerAlg(i, cose.AlgorithmES256, fault) }

func (w *verifWorld) pubAlg(i int, alg cose.Algorithm) crypto.PublicKey {
	if ndSymbolic() {
		return verifKey{id: i, kind: verifAlgKind(alg)}
	}
	return w.realKey(i, alg).Public()
}

func (w *verifWorld) pub(i int) crypto.PublicKey { return w.pubAlg(i, cose.AlgorithmES256) }

// verifPickAlg: a symbolic choice among the algorithms go-cose can sign with
func verifPickAlg(name string) cose.Algorithm {
	k := ndInt(name)
	ndAssume(k >= 0 && k < len(verifAlgs))
	return verifAlgs[ndConcrete(k)]
}
