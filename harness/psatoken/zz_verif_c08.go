//go:build verif

package psatoken

// C08: validating entry points never let an invalid claims-set through, and behave exactly
// like their non-validating sibling when validation succeeds.

var _ = verifReg("C08enc", VerifC08enc)
var _ = verifReg("C08dec", VerifC08dec)
var _ = verifReg("C08set", VerifC08set)

// verifGenClaims: an arbitrary claims-set of the profile selected by the "profile" parameter.
func verifGenClaims() (IClaims, *genP1, *genP2) {
	if ndParam("profile", 1) == 1 {
		g := genP1Claims(ndParam("maxcomp", 1), 4)
		return g.c, g, nil
	}
	g := genP2Claims(ndParam("maxcomp", 1), 4, 2)
	return g.c, nil, g
}

func verifValid(c IClaims) bool { return c.Validate() == nil }

// wrappers that drop the error object (integers and byte strings merge where errors do not)
func c08bytes(f func(IClaims) ([]byte, error), c IClaims) ([]byte, bool) {
	b, err := f(c)
	return b, err != nil
}

func c08claims(f func([]byte) (IClaims, error), buf []byte) (IClaims, bool) {
	c, err := f(buf)
	return c, err != nil
}

func VerifC08enc() {
	verifInstallStubs()
	c, _, _ := verifGenClaims()
	valid := verifValid(c)
	o1, f1 := c08bytes(ValidateAndEncodeClaimsToCBOR, c)
	o2, f2 := c08bytes(EncodeClaimsToCBOR, c)
	ndAssert("c08-cbor-gate-fails-iff-invalid-or-sibling-fails", f1 == (!valid || f2))
	ndAssert("c08-cbor-invalid-emits-no-bytes", valid || len(o1) == 0)
	ndAssert("c08-cbor-valid-equals-sibling", !valid || f1 || verifSameBytes(o1, o2))
	j1, g1 := c08bytes(ValidateAndEncodeClaimsToJSON, c)
	j2, g2 := c08bytes(EncodeClaimsToJSON, c)
	ndAssert("c08-json-gate-fails-iff-invalid-or-sibling-fails", g1 == (!valid || g2))
	ndAssert("c08-json-invalid-emits-no-bytes", valid || len(j1) == 0)
	ndAssert("c08-json-valid-equals-sibling", !valid || g1 || verifSameBytes(j1, j2))
	ndCover("c08-enc-valid", valid && !f1 && !g1)
	ndCover("c08-enc-invalid", !valid && f1 && !f2 && c08onlyLifecycleWrong(c))
}

// verifDecodeInput prepares a CBOR (json=false) or JSON input for the generated claims-set:
// natively the real encoding; symbolically an opaque non-empty buffer that the decoder stub
// maps to the generated claims-set.
func verifDecodeInput(c IClaims, g1 *genP1, g2 *genP2, asJSON bool) []byte {
	verifStub.p1, verifStub.p2 = g1, g2
	if g1 != nil {
		verifStub.selProf = ""
		verifStub.jsonMap = map[string]interface{}{}
		if g1.hasProfile {
			verifStub.jsonMap["psa-profile"] = g1.profile
		}
	} else {
		verifStub.selProf = g2.profStr
		verifStub.jsonMap = map[string]interface{}{}
		if g2.profKind == 2 {
			verifStub.jsonMap["eat-profile"] = g2.profStr
		}
	}
	if ndSymbolic() {
		b := ndBytes("input")
		ndAssume(len(b) > 0)
		verifMapLike(b)
		return b
	}
	if asJSON {
		return verifRealJSON(c)
	}
	return verifRealCBOR(c)
}

func c08decodeGate(pfx string, gate, sibling func([]byte) (IClaims, error), buf []byte) {
	c1, f1 := c08claims(gate, buf)
	c2, f2 := c08claims(sibling, buf)
	valid2 := !f2 && verifValid(c2)
	ndAssert(pfx+"-gate-fails-iff-invalid-or-sibling-fails", f1 == (f2 || !valid2))
	ndAssert(pfx+"-failure-returns-no-claims", !f1 || c1 == nil)
	if !f1 && !f2 {
		ndAssert(pfx+"-valid-equals-sibling", obsSame(obsOf(c1), obsOf(c2), -1))
	}
	ndCover(pfx+"-accepts", !f1)
	ndCover(pfx+"-rejects-invalid", f1 && !f2 && c08onlyLifecycleWrong(c2))
}

// a natively encodable invalid claims-set: everything fine except the lifecycle value
func c08onlyLifecycleWrong(c IClaims) bool {
	if c == nil {
		return false
	}
	o := obsOf(c)
	return o.lc.cls == clsSyntax && o.profile.cls == obsNil && o.clientID.cls == obsNil && o.implID.cls == obsNil &&
		o.nonce.cls == obsNil && o.instID.cls == obsNil && o.sw.cls == obsNil && o.sw.n > 0 &&
		(o.boot.cls == obsNil || o.boot.cls == clsOpt) && o.certRef.cls == clsOpt && o.vsi.cls == clsOpt
}

func VerifC08dec() {
	verifInstallStubs()
	c, g1, g2 := verifGenClaims()
	if ndParam("json", 0) == 0 {
		buf := verifDecodeInput(c, g1, g2, false)
		c08decodeGate("c08-cbor-decode", DecodeAndValidateClaimsFromCBOR, DecodeClaimsFromCBOR, buf)
	} else {
		buf := verifDecodeInput(c, g1, g2, true)
		c08decodeGate("c08-json-decode", DecodeAndValidateClaimsFromJSON, DecodeClaimsFromJSON, buf)
	}
}

func VerifC08set() {
	c, _, _ := verifGenClaims()
	valid := verifValid(c)
	// previous attachment: nil or some other claims object
	var prev IClaims
	if ndBool("prev.attached") {
		prev, _ = NewClaims("PSA_IOT_PROFILE_1")
	}
	e := &Evidence{Claims: prev}
	failed := e.SetClaims(c) != nil
	ndAssert("c08-setclaims-fails-iff-invalid", failed == !valid)
	ndAssert("c08-setclaims-failure-attaches-nothing", !failed || e.Claims == prev)
	ndAssert("c08-setclaims-success-attaches-argument", failed || e.Claims == c)
	ndCover("c08-set-ok", !failed)
	ndCover("c08-set-rejected", failed)
}
