//go:build verif

package psatoken

// C11: setters accept exactly what validation accepts and are all-or-nothing.
// One Hoare triple per setter from an ARBITRARY pre-state (valid or invalid): sequences of
// any length follow by induction on the triples.

var _ = verifReg("C11p1", VerifC11p1)
var _ = verifReg("C11p2", VerifC11p2)
var _ = verifReg("C11sc", VerifC11sc)
var _ = verifReg("C11all", VerifC11all)

const obsNil = 0x100

type obsVal struct {
	cls int
	i   int64
	b   []byte
	s   string
}

func obsCls(err error) int {
	if err == nil {
		return obsNil
	}
	return verifClass(err)
}

func obsI32(get func() (int32, error)) obsVal {
	v, err := get()
	return obsVal{cls: obsCls(err), i: int64(v)}
}

func obsU16(get func() (uint16, error)) obsVal {
	v, err := get()
	return obsVal{cls: obsCls(err), i: int64(v)}
}

func obsBytes(get func() ([]byte, error)) obsVal {
	v, err := get()
	return obsVal{cls: obsCls(err), b: v}
}

func obsStr(get func() (string, error)) obsVal {
	v, err := get()
	return obsVal{cls: obsCls(err), s: v}
}

func obsEq(a, b obsVal) bool {
	return a.cls == b.cls && a.i == b.i && verifSameBytes(a.b, b.b) && a.s == b.s
}

type obsComp struct{ mt, mv, ver, sid, desc obsVal }

func obsCompOf(sc ISwComponent) obsComp {
	return obsComp{
		mt:   obsStr(sc.GetMeasurementType),
		mv:   obsBytes(sc.GetMeasurementValue),
		ver:  obsStr(sc.GetVersion),
		sid:  obsBytes(sc.GetSignerID),
		desc: obsStr(sc.GetMeasurementDesc),
	}
}

func obsCompEq(a, b obsComp) bool {
	return obsEq(a.mt, b.mt) && obsEq(a.mv, b.mv) && obsEq(a.ver, b.ver) && obsEq(a.sid, b.sid) && obsEq(a.desc, b.desc)
}

const obsMaxComp = 4

type obsSw struct {
	cls   int
	n     int
	comps [obsMaxComp]obsComp
}

func obsSwOf(c IClaims) obsSw {
	scs, err := c.GetSoftwareComponents()
	o := obsSw{cls: obsCls(err)}
	if err != nil {
		return o
	}
	o.n = len(scs)
	for i, sc := range scs {
		if i < obsMaxComp {
			o.comps[i] = obsCompOf(sc)
		}
	}
	return o
}

func obsSwEq(a, b obsSw) bool {
	if a.cls != b.cls || a.n != b.n {
		return false
	}
	for i := 0; i < obsMaxComp; i++ {
		if !obsCompEq(a.comps[i], b.comps[i]) {
			return false
		}
	}
	return true
}

// obsAll: what a user can observe of a claims-set through the IClaims getters.
type obsAll struct {
	profile, clientID, lc, implID, boot, certRef, nonce, instID, vsi obsVal
	sw                                                                 obsSw
}

func obsOf(c IClaims) obsAll {
	return obsAll{
		profile:  obsStr(c.GetProfile),
		clientID: obsI32(c.GetClientID),
		lc:       obsU16(c.GetSecurityLifeCycle),
		implID:   obsBytes(c.GetImplID),
		boot:     obsBytes(c.GetBootSeed),
		certRef:  obsStr(c.GetCertificationReference),
		nonce:    obsBytes(c.GetNonce),
		instID:   obsBytes(c.GetInstID),
		vsi:      obsStr(c.GetVSI),
		sw:       obsSwOf(c),
	}
}

// obsSame: every claim except the one numbered `skip` is observably equal.
func obsSame(a, b obsAll, skip int) bool {
	return (skip == 0 || obsEq(a.clientID, b.clientID)) &&
		(skip == 1 || obsEq(a.lc, b.lc)) &&
		(skip == 2 || obsEq(a.implID, b.implID)) &&
		(skip == 3 || obsEq(a.boot, b.boot)) &&
		(skip == 4 || obsEq(a.certRef, b.certRef)) &&
		(skip == 5 || obsSwEq(a.sw, b.sw)) &&
		(skip == 6 || obsEq(a.nonce, b.nonce)) &&
		(skip == 7 || obsEq(a.instID, b.instID)) &&
		(skip == 8 || obsEq(a.vsi, b.vsi)) &&
		obsEq(a.profile, b.profile)
}

// c11step runs setter number k with arbitrary arguments on c and checks the triple.
// p2 selects the profile-2 value rules.
func c11step(c IClaims, k int, p2 bool, pfx string) {
	pre := obsOf(c)
	var err error
	var specOK, matches bool
	exempt := false
	switch k {
	case 0:
		v := ndInt32("arg.clientid")
		err = c.SetClientID(v)
		specOK = true
		o := obsI32(c.GetClientID)
		matches = o.cls == obsNil && o.i == int64(v)
	case 1:
		v := ndUint16("arg.lifecycle")
		err = c.SetSecurityLifeCycle(v)
		specOK = specLifecycleValid(v)
		o := obsU16(c.GetSecurityLifeCycle)
		matches = o.cls == obsNil && o.i == int64(v)
	case 2:
		v := ndBytes("arg.implid")
		err = c.SetImplID(v)
		specOK = len(v) == 32
		o := obsBytes(c.GetImplID)
		matches = o.cls == obsNil && verifSameBytes(o.b, v)
	case 3:
		v := ndBytes("arg.bootseed")
		err = c.SetBootSeed(v)
		if p2 {
			specOK = len(v) >= 8 && len(v) <= 32
		} else {
			specOK = len(v) == 32
		}
		o := obsBytes(c.GetBootSeed)
		matches = o.cls == obsNil && verifSameBytes(o.b, v)
	case 4:
		v := ndString("arg.certref", 24)
		err = c.SetCertificationReference(v)
		if p2 {
			specOK = specEAN13p5(v)
		} else {
			specOK = specEAN13(v) || specEAN13p5(v)
		}
		o := obsStr(c.GetCertificationReference)
		matches = o.cls == obsNil && o.s == v
	case 5:
		specOK, matches, exempt, err = c11setSw(c, p2)
	case 6:
		v := ndBytes("arg.nonce")
		err = c.SetNonce(v)
		specOK = specHash(len(v))
		o := obsBytes(c.GetNonce)
		matches = o.cls == obsNil && verifSameBytes(o.b, v)
	case 7:
		v := ndBytes("arg.instid")
		err = c.SetInstID(v)
		specOK = specInstID(v)
		o := obsBytes(c.GetInstID)
		matches = o.cls == obsNil && verifSameBytes(o.b, v)
	case 8:
		v := ndString("arg.vsi", 8)
		err = c.SetVSI(v)
		specOK = v != ""
		o := obsStr(c.GetVSI)
		matches = o.cls == obsNil && o.s == v
	}
	post := obsOf(c)
	ok := err == nil
	ndAssert(pfx+"-ok-iff-valid", exempt || ok == specOK)
	ndAssert(pfx+"-success-getter-returns-arg", !ok || matches)
	ndAssert(pfx+"-success-others-unchanged", !ok || obsSame(pre, post, k))
	ndAssert(pfx+"-failure-unchanged", ok || obsSame(pre, post, -1))
	ndAssert(pfx+"-failure-class", ok || verifClass(err) != 0)
	ndCover(pfx+"-success", ok)
	if k != 0 {
		ndCover(pfx+"-failure", !ok)
	}
}

// c11setSw: SetSoftwareComponents with nil / empty / 1..2 arbitrary components.
func c11setSw(c IClaims, p2 bool) (specOK, matches, exempt bool, err error) {
	n := ndInt("arg.sw.n")
	ndAssume(n >= -1 && n <= ndParam("argcomp", 2))
	if n == -1 {
		err = c.SetSoftwareComponents(nil)
		o := obsSwOf(c)
		if p2 {
			// profile 2: a nil list is the same Go value class as an empty one: a clear
			return true, c11zeroComponents(c), true, err
		}
		// profile 1: nil asserts the no-measurements flag
		return true, o.cls == obsNil && o.n == 0, false, err
	}
	var gs []*genSw
	scs := []ISwComponent{}
	all := true
	for i := 0; i < n; i++ {
		g := genSwComponent(ndName("arg.sw", i), 4)
		gs = append(gs, g)
		scs = append(scs, g.sc)
		all = all && g.specValid()
	}
	err = c.SetSoftwareComponents(scs)
	if n == 0 {
		// empty non-nil list = clear: must leave zero components; exempt from the iff
		return true, err != nil || c11zeroComponents(c), true, err
	}
	o := obsSwOf(c)
	m := o.cls == obsNil && o.n == n
	for i := 0; i < n; i++ {
		m = m && obsCompEq(o.comps[i], obsCompOf(gs[i].sc))
	}
	return all, m, false, err
}

func c11zeroComponents(c IClaims) bool {
	scs, _ := c.GetSoftwareComponents()
	return len(scs) == 0
}

func VerifC11p1() {
	g := genP1Claims(ndParam("maxcomp", 1), 4)
	c11step(g.c, ndParam("setter", 0), false, "p1")
}

func VerifC11p2() {
	g := genP2Claims(ndParam("maxcomp", 1), 4, 2)
	c11step(g.c, ndParam("setter", 0), true, "p2")
}

// software component setters
func VerifC11sc() {
	g := genSwComponent("pre", 6)
	sc := g.sc
	pre := obsCompOf(sc)
	k := ndParam("setter", 0)
	var err error
	var specOK, matches bool
	switch k {
	case 0:
		v := ndString("arg.mt", 6)
		err = sc.SetMeasurementType(v)
		specOK = true
		o := obsStr(sc.GetMeasurementType)
		matches = o.cls == obsNil && o.s == v
	case 1:
		v := ndBytes("arg.mv")
		err = sc.SetMeasurementValue(v)
		specOK = specHash(len(v))
		o := obsBytes(sc.GetMeasurementValue)
		matches = o.cls == obsNil && verifSameBytes(o.b, v)
	case 2:
		v := ndString("arg.ver", 6)
		err = sc.SetVersion(v)
		specOK = true
		o := obsStr(sc.GetVersion)
		matches = o.cls == obsNil && o.s == v
	case 3:
		v := ndBytes("arg.sid")
		err = sc.SetSignerID(v)
		specOK = specHash(len(v))
		o := obsBytes(sc.GetSignerID)
		matches = o.cls == obsNil && verifSameBytes(o.b, v)
	case 4:
		v := ndString("arg.desc", 6)
		err = sc.SetMeasurementDesc(v)
		specOK = true
		o := obsStr(sc.GetMeasurementDesc)
		matches = o.cls == obsNil && o.s == v
	}
	post := obsCompOf(sc)
	ok := err == nil
	ndAssert("sc-ok-iff-valid", ok == specOK)
	ndAssert("sc-success-getter-returns-arg", !ok || matches)
	ndAssert("sc-success-others-unchanged", !ok || c11compSame(pre, post, k))
	ndAssert("sc-failure-unchanged", ok || c11compSame(pre, post, -1))
	ndCover("sc-success", ok)
}

func c11compSame(a, b obsComp, skip int) bool {
	return (skip == 0 || obsEq(a.mt, b.mt)) && (skip == 1 || obsEq(a.mv, b.mv)) && (skip == 2 || obsEq(a.ver, b.ver)) &&
		(skip == 3 || obsEq(a.sid, b.sid)) && (skip == 4 || obsEq(a.desc, b.desc))
}

// a claims-set on which every mandatory claim was set successfully validates
func VerifC11all() {
	p2 := ndParam("p2", 0) == 1
	name := "PSA_IOT_PROFILE_1"
	if p2 {
		name = "http://arm.com/psa/2.0.0"
	}
	c, err := NewClaims(name)
	if err != nil {
		ndAssert("all-newclaims", false)
		return
	}
	okAll := c.SetClientID(ndInt32("clientid")) == nil
	okAll = c11and(okAll, c.SetSecurityLifeCycle(ndUint16("lifecycle")))
	okAll = c11and(okAll, c.SetImplID(ndBytes("implid")))
	okAll = c11and(okAll, c.SetNonce(ndBytes("nonce")))
	okAll = c11and(okAll, c.SetInstID(ndBytes("instid")))
	if !p2 {
		okAll = c11and(okAll, c.SetBootSeed(ndBytes("bootseed")))
	}
	useNil := !p2 && ndBool("sw.nil")
	if useNil {
		okAll = c11and(okAll, c.SetSoftwareComponents(nil))
	} else {
		g := genSwComponent("sw[0]", 4)
		okAll = c11and(okAll, c.SetSoftwareComponents([]ISwComponent{g.sc}))
	}
	ndAssume(okAll)
	ndAssert("all-mandatory-set-validates", c.Validate() == nil)
	ndCover("all-set", true)
}

func c11and(ok bool, err error) bool { return ok && err == nil }
