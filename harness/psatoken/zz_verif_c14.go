//go:build verif

package psatoken

// C14: security-lifecycle values map to the specified state, totally.

var _ = verifReg("C14", VerifC14)

// specState is the property's own table: 0x00xx..0x60xx -> 0..6, anything else 7.
func specState(v uint16) uint16 {
	hi := v >> 8
	lo := v & 0xff
	_ = lo
	if hi&0x0f != 0 {
		return 7
	}
	k := hi >> 4
	if k > 6 {
		return 7
	}
	return k
}

func specStateName(s uint16) string {
	switch s {
	case 0:
		return "unknown"
	case 1:
		return "assembly-and-test"
	case 2:
		return "psa-rot-provisioning"
	case 3:
		return "secured"
	case 4:
		return "non-psa-rot-debug"
	case 5:
		return "recoverable-psa-rot-debug"
	case 6:
		return "decommissioned"
	}
	return "invalid"
}

func VerifC14() {
	v := ndUint16("v")
	want := specState(v)
	valid := want != 7

	st := LifeCycleToState(v)
	ndAssert("state", uint16(st) == want)
	ndAssert("isvalid", st.IsValid() == valid)
	ndAssert("name", st.String() == specStateName(want))
	ndAssert("validator", (ValidateSecurityLifeCycle(v) == nil) == valid)

	for i, name := range []string{Profile1Name, Profile2Name} {
		c, err := NewClaims(name)
		ndAssert("newclaims", err == nil)
		if err != nil {
			return
		}
		serr := c.SetSecurityLifeCycle(v)
		got, gerr := c.GetSecurityLifeCycle()
		if i == 0 {
			ndAssert("p1-set-iff", (serr == nil) == valid)
			ndAssert("p1-get-iff", (gerr == nil) == valid)
			ndAssert("p1-get-value", !valid || got == v)
		} else {
			ndAssert("p2-set-iff", (serr == nil) == valid)
			ndAssert("p2-get-iff", (gerr == nil) == valid)
			ndAssert("p2-get-value", !valid || got == v)
		}
	}

	// getters on a claims-set that holds v without passing through the setter
	p1 := &P1Claims{CanonicalProfile: Profile1Name}
	verifPutAlways(&p1.SecurityLifeCycle, &v)
	_, e1 := p1.GetSecurityLifeCycle()
	ndAssert("p1-direct-get-iff", (e1 == nil) == valid)
	p2 := &P2Claims{CanonicalProfile: Profile2Name}
	verifPutAlways(&p2.SecurityLifeCycle, &v)
	g2, e2 := p2.GetSecurityLifeCycle()
	ndAssert("p2-direct-get-iff", (e2 == nil) == valid)
	ndAssert("p2-direct-get-value", !valid || g2 == v)

	// every state name string is reachable only for its own range
	ndCover("invalid", !valid)
	ndCover("valid-secured", want == 3)
	ndCover("boundary-10ff", v == 0x10ff)
	ndCover("boundary-1100", v == 0x1100)
}
