//go:build verif

package psatoken

// C01: Validate() accepts a claims-set iff it satisfies its profile's rules; getter
// post-conditions after a successful validation.

import "errors"

var _ = verifReg("C01p1", VerifC01p1)
var _ = verifReg("C01p2", VerifC01p2)
var _ = verifReg("C01hist", VerifC01hist)

func verifOptionalOK(err error) bool {
	return err == nil || errors.Is(err, ErrMissingOptional)
}

func VerifC01p1() {
	g := genP1Claims(ndParam("maxcomp", 2), ndParam("strmax", 8))
	want := g.specValid()
	err := g.c.Validate()
	ndAssert("p1-validate-iff-spec", (err == nil) == want)
	ndCover("p1-valid", err == nil)
	ndCover("p1-valid-nosw", err == nil && g.hasNoSw)
	ndCover("p1-valid-comps", err == nil && g.sw.count() > 0)
	ndCover("p1-invalid", err != nil)
	if err != nil {
		return
	}
	// post-conditions: every mandatory getter succeeds and returns the stored value
	p, e0 := g.c.GetProfile()
	ndAssert("p1-post-profile", e0 == nil && p == "PSA_IOT_PROFILE_1")
	cid, e1 := g.c.GetClientID()
	ndAssert("p1-post-clientid", e1 == nil && cid == g.clientID)
	lc, e2 := g.c.GetSecurityLifeCycle()
	ndAssert("p1-post-lifecycle", e2 == nil && lc == g.lc)
	ii, e3 := g.c.GetImplID()
	ndAssert("p1-post-implid", e3 == nil && verifSameBytes(ii, g.implID))
	bs, e4 := g.c.GetBootSeed()
	ndAssert("p1-post-bootseed", e4 == nil && verifSameBytes(bs, g.boot))
	nn, e5 := g.c.GetNonce()
	ndAssert("p1-post-nonce", e5 == nil && verifSameBytes(nn, g.nonce))
	id, e6 := g.c.GetInstID()
	ndAssert("p1-post-instid", e6 == nil && verifSameBytes(id, g.instID))
	scs, e7 := g.c.GetSoftwareComponents()
	ndAssert("p1-post-swcomponents", e7 == nil && len(scs) == g.sw.count())
	// optional getters: conformant value or missing-optional
	cr, e8 := g.c.GetCertificationReference()
	ndAssert("p1-post-certref", verifOptionalOK(e8) && (e8 != nil || (g.hasCertRef && cr == g.certRef && (specEAN13(cr) || specEAN13p5(cr)))))
	ndAssert("p1-post-certref-missing", (e8 != nil) == !g.hasCertRef)
	vs, e9 := g.c.GetVSI()
	ndAssert("p1-post-vsi", verifOptionalOK(e9) && (e9 != nil || (g.hasVSI && vs == g.vsi && vs != "")))
	ndAssert("p1-post-vsi-missing", (e9 != nil) == !g.hasVSI)
}

func VerifC01p2() {
	g := genP2Claims(ndParam("maxcomp", 2), ndParam("strmax", 8), 2)
	want := g.specValid()
	err := g.c.Validate()
	ndAssert("p2-validate-iff-spec", (err == nil) == want)
	ndCover("p2-valid", err == nil)
	ndCover("p2-valid-bootseed8", err == nil && g.hasBoot && len(g.boot) == 8)
	ndCover("p2-invalid", err != nil)
	ndCover("p2-invalid-two-nonces", err != nil && len(g.nonces) == 2)
	if err != nil {
		return
	}
	p, e0 := g.c.GetProfile()
	ndAssert("p2-post-profile", e0 == nil && p == "http://arm.com/psa/2.0.0")
	cid, e1 := g.c.GetClientID()
	ndAssert("p2-post-clientid", e1 == nil && cid == g.clientID)
	lc, e2 := g.c.GetSecurityLifeCycle()
	ndAssert("p2-post-lifecycle", e2 == nil && lc == g.lc)
	ii, e3 := g.c.GetImplID()
	ndAssert("p2-post-implid", e3 == nil && verifSameBytes(ii, g.implID))
	nn, e5 := g.c.GetNonce()
	ndAssert("p2-post-nonce", e5 == nil && len(g.nonces) == 1 && verifSameBytes(nn, g.nonces[0]))
	id, e6 := g.c.GetInstID()
	ndAssert("p2-post-instid", e6 == nil && verifSameBytes(id, g.instID))
	scs, e7 := g.c.GetSoftwareComponents()
	ndAssert("p2-post-swcomponents", e7 == nil && len(scs) == g.sw.count() && len(scs) > 0)
	bs, e4 := g.c.GetBootSeed()
	ndAssert("p2-post-bootseed", verifOptionalOK(e4) && (e4 != nil || (g.hasBoot && verifSameBytes(bs, g.boot) && len(bs) >= 8 && len(bs) <= 32)))
	ndAssert("p2-post-bootseed-missing", (e4 != nil) == !g.hasBoot)
	cr, e8 := g.c.GetCertificationReference()
	ndAssert("p2-post-certref", verifOptionalOK(e8) && (e8 != nil || (g.hasCertRef && cr == g.certRef && specEAN13p5(cr))))
	ndAssert("p2-post-certref-missing", (e8 != nil) == !g.hasCertRef)
	vs, e9 := g.c.GetVSI()
	ndAssert("p2-post-vsi", verifOptionalOK(e9) && (e9 != nil || (g.hasVSI && vs == g.vsi && vs != "")))
	ndAssert("p2-post-vsi-missing", (e9 != nil) == !g.hasVSI)
}

// C01 "the verdict depends on nothing else": the components are installed through the SETTER
// from a valid list and then edited in place through the pointers the caller still holds (to
// the arbitrary values of the generator); validation must judge the values the claims-set has
// NOW, whatever was checked when they were installed.
func VerifC01hist() {
	c, g1, g2 := verifGenClaims()
	var sw *genSws
	if g1 != nil {
		sw = g1.sw
	} else {
		sw = g2.sw
	}
	n := sw.count()
	if sw.isNilIface || n == 0 {
		return
	}
	var inst []*SwComponent
	var list []ISwComponent
	for i := 0; i < n; i++ {
		v := genSwComponent(ndName("hist", i), 4)
		ndAssume(v.specValid())
		inst = append(inst, v.sc)
		list = append(list, v.sc)
	}
	if err := c.SetSoftwareComponents(list); err != nil {
		ndAssert("c01-hist-valid-list-is-accepted", false)
		return
	}
	if g1 != nil {
		// profile 1: installing a non-empty list withdraws the no-measurements flag
		g1.hasNoSw = false
		ndAssert("c01-hist-list-and-flag-exclusive", g1.c.NoSwMeasurements == nil)
	}
	for i := 0; i < n; i++ {
		*inst[i] = *sw.comps[i].sc // in-place edit: the installed component now holds the generator's values
	}
	var want bool
	if g1 != nil {
		want = g1.specValid()
	} else {
		want = g2.specValid()
	}
	err := c.Validate()
	ndAssert("c01-hist-validate-judges-current-values", (err == nil) == want)
	scs, gerr := c.GetSoftwareComponents()
	if err == nil {
		ok := gerr == nil && len(scs) == n
		for i := 0; ok && i < n; i++ {
			mv, e1 := scs[i].GetMeasurementValue()
			sid, e2 := scs[i].GetSignerID()
			ok = e1 == nil && e2 == nil && verifSameBytes(mv, sw.comps[i].mv) && verifSameBytes(sid, sw.comps[i].sid)
		}
		ndAssert("c01-hist-getters-after-validation", ok)
	}
	ndCover("c01-hist-valid", err == nil)
	ndCover("c01-hist-invalid-component", err != nil && !sw.allValid())
}
