//go:build verif

package psatoken

// C04: CBOR acceptance equals profile conformance; accepted values equal the wire.
// The token is an abstract item map T (L3): every claim key absent or present with a
// right-typed item of ARBITRARY value (drawn from the claims generators), except ONE focus key
// whose item is completely arbitrary (any CBOR kind); plus up to one unknown extra key.

import "unicode/utf8"

var _ = verifReg("C04", VerifC04)

// wireAny: the item-map entries of an arbitrary (possibly invalid) generated claims-set: one
// entry per key of the profile, present iff the claim is set (no branching: presence stays symbolic)
func (g *genP1) wireAny() []wireEntry {
	return []wireEntry{
		{present: g.hasProfile, key: -75000, kind: ikTstr, s: g.profile},
		wireInt(-75001, int64(g.clientID), g.hasClientID),
		{present: g.hasLC, key: -75002, kind: ikUint, u: uint64(g.lc)},
		{present: g.hasImplID, key: -75003, kind: ikBstr, b: g.implID},
		{present: g.hasBoot, key: -75004, kind: ikBstr, b: g.boot},
		{present: g.hasCertRef, key: -75005, kind: ikTstr, s: g.certRef},
		{present: g.sw.count() > 0, key: -75006, kind: ikArray, list: g.sw},
		{present: g.hasNoSw, key: -75007, kind: ikUint, u: uint64(g.noSw)},
		{present: g.hasNonce, key: -75008, kind: ikBstr, b: g.nonce},
		{present: g.hasInstID, key: -75009, kind: ikBstr, b: g.instID},
		{present: g.hasVSI, key: -75010, kind: ikTstr, s: g.vsi},
	}
}

func (g *genP2) wireAny() []wireEntry {
	var n0 []byte
	if len(g.nonces) >= 1 {
		n0 = g.nonces[0]
	}
	return []wireEntry{
		{present: g.profKind == 2, key: 265, kind: ikTstr, s: g.profStr},
		wireInt(2394, int64(g.clientID), g.hasClientID),
		{present: g.hasLC, key: 2395, kind: ikUint, u: uint64(g.lc)},
		{present: g.hasImplID, key: 2396, kind: ikBstr, b: g.implID},
		{present: g.hasBoot, key: 2397, kind: ikBstr, b: g.boot},
		{present: g.hasCertRef, key: 2398, kind: ikTstr, s: g.certRef},
		{present: g.sw.count() > 0, key: 2399, kind: ikArray, list: g.sw},
		{present: g.hasNonce && len(g.nonces) == 1, key: 10, kind: ikBstr, b: n0},
		{present: g.hasInstID, key: 256, kind: ikBstr, b: g.instID},
		{present: g.hasVSI, key: 2400, kind: ikTstr, s: g.vsi},
	}
}

func (g *genSw) wireAny() []wireEntry {
	return []wireEntry{
		{present: g.hasMT, key: 1, kind: ikTstr, s: g.mt},
		{present: g.hasMV, key: 2, kind: ikBstr, b: g.mv},
		{present: g.hasVer, key: 4, kind: ikTstr, s: g.ver},
		{present: g.hasSID, key: 5, kind: ikBstr, b: g.sid},
		{present: g.hasDesc, key: 6, kind: ikTstr, s: g.desc},
	}
}

func wireToItem(w []wireEntry) *vItem {
	it := &vItem{kind: ikMap}
	for _, e := range w {
		it.put(e.key, wireEntryToItem(e), e.present)
	}
	return it
}

func wireEntryToItem(e wireEntry) *vItem {
	switch e.kind {
	case ikArray:
		a := &vItem{kind: ikArray}
		for _, c := range e.list.comps {
			a.elems = append(a.elems, wireToItem(c.wireAny()))
		}
		return a
	}
	return &vItem{kind: e.kind, u: e.u, b: e.b, s: e.s}
}

// c04arbitrary: a completely arbitrary item of depth <= 1
func c04arbitrary(name string) *vItem {
	kind := ndConcrete(verifChoice(name+".kind", ikCount))
	it := &vItem{kind: kind}
	switch kind {
	case ikUint, ikNint:
		it.u = ndUint64(name + ".u")
	case ikBstr:
		it.b = ndBytes(name + ".b")
	case ikTstr:
		it.s = ndString(name+".s", 26)
		ndAssume(utf8.ValidString(it.s)) // a well-formed CBOR text string is valid UTF-8
	case ikArray:
		// 0, 1, 2 elements, or as many as the fixed-size byte-string claims have bytes
		n := [7]int{0, 1, 2, 8, 32, 33, 48}[ndConcrete(verifChoice(name+".n", 7))]
		for i := 0; i < n; i++ {
			if ndBool(name + ".elems.are.bstr") {
				it.elems = append(it.elems, &vItem{kind: ikBstr, b: ndBytes(ndName(name+".eb", i))})
			} else {
				it.elems = append(it.elems, &vItem{kind: ikUint, u: ndUint64(ndName(name+".eu", i))})
			}
		}
	case ikMap:
		it.put(int64(ndInt32(name+".mk")), &vItem{kind: ikUint, u: 1}, ndBool(name+".map.nonempty"))
	case ikTag:
		it.u = ndUint64(name + ".tag")
		it.inner = &vItem{kind: ikUint, u: ndUint64(name + ".tagged")}
	}
	return it
}

// the claim each key carries: index into the focus table
var c04keysP1 = [11]int64{-75000, -75001, -75002, -75003, -75004, -75005, -75006, -75007, -75008, -75009, -75010}
var c04keysP2 = [10]int64{265, 2394, 2395, 2396, 2397, 2398, 2399, 10, 256, 2400}

// c04leafConf: the focus item is a conformant value for its key; verdict=false for the
// encodings the specifications leave open (null on an optional key, tags, a one-element nonce
// array, a no-measurements flag other than 1, a list that is empty).
func c04leafConf(p2 bool, key int64, it *vItem) (conf bool, verdict bool) {
	if it.kind == ikTag {
		return false, false
	}
	text := func(ok bool) (bool, bool) { return it.kind == ikTstr && ok, true }
	bytesOK := func(ok bool) (bool, bool) { return it.kind == ikBstr && ok, true }
	optional := false
	switch key {
	case -75000, -75005, -75006, -75007, -75010, 2397, 2398, 2400:
		optional = true
	}
	if it.kind == ikNull && optional {
		return false, false
	}
	switch key {
	case -75000:
		return text(it.s == "PSA_IOT_PROFILE_1")
	case 265:
		return text(it.s == "http://arm.com/psa/2.0.0")
	case -75001, 2394:
		return (it.kind == ikUint && it.u <= 1<<31-1) || (it.kind == ikNint && it.u <= 1<<31-1), true
	case -75002, 2395:
		return it.kind == ikUint && it.u <= 0xffff && specLifecycleValid(uint16(it.u)), true
	case -75003, 2396:
		return bytesOK(len(it.b) == 32)
	case -75004:
		return bytesOK(len(it.b) == 32)
	case 2397:
		return bytesOK(len(it.b) >= 8 && len(it.b) <= 32)
	case -75005:
		return text(specEAN13(it.s) || specEAN13p5(it.s))
	case 2398:
		return text(specEAN13p5(it.s))
	case -75007:
		if it.kind == ikUint && it.u != 1 {
			return false, false
		}
		return it.kind == ikUint, true
	case -75008:
		return bytesOK(specHash(len(it.b)))
	case 10:
		if it.kind == ikArray && len(it.elems) == 1 {
			return false, false
		}
		return bytesOK(specHash(len(it.b)))
	case -75009, 256:
		return bytesOK(specInstID(it.b))
	case -75010, 2400:
		return text(it.s != "")
	case -75006, 2399:
		// an arbitrary item under the component-list key is never a conformant NON-EMPTY list
		// of conformant components (the arbitrary array holds only integers / byte strings),
		// except the empty array, which means "no list" (verdict-free together with the flag rules)
		if it.kind == ikArray && len(it.elems) == 0 {
			return false, false
		}
		return false, true
	}
	return false, false
}

// c04token: an item map over the claim-key space: all claims right-typed with arbitrary
// values (generator), the focus key (if any) dropped or replaced by an arbitrary item
func c04token() (T *vItem, g1 *genP1, g2 *genP2, focus int, fkey int64, fit *vItem, hasFocus bool) {
	_, g1, g2 = verifGenClaims()
	p2 := g2 != nil
	// the quantifier ranges over WELL-FORMED CBOR: text strings are valid UTF-8
	ndAssume(c09textOK(g1, g2))
	if g1 != nil {
		ndAssume(utf8.ValidString(g1.profile))
	}
	focus = ndParam("focus", -1)
	var w []wireEntry
	if p2 {
		w = g2.wireAny()
	} else {
		w = g1.wireAny()
	}
	T = wireToItem(w)
	if focus >= 0 {
		if p2 {
			fkey = c04keysP2[focus]
		} else {
			fkey = c04keysP1[focus]
		}
		// drop the generator's entry for the focus key and put an arbitrary item (or nothing)
		nt := &vItem{kind: ikMap}
		for i, k := range T.keys {
			if k != fkey {
				nt.put(k, T.elems[i], T.has[i])
			}
		}
		T = nt
		if ndBool("focus.present") {
			hasFocus = true
			fit = c04arbitrary("focus")
			if ndParam("kf.bstr-from-array", 0) == 1 {
				// known finding C04-bstr-from-array: its region is assumed away
				ndAssume(fit.kind != ikArray || !c04bstrKey(fkey))
			}
			T.put(fkey, fit, true)
		}
	}
	return
}

func VerifC04() {
	l3install()
	T, g1, g2, focus, fkey, fit, hasFocus := c04token()
	p2 := g2 != nil
	if ndParam("fullpresence", 0) == 1 {
		// variant: every top-level claim is present (concretely), so that a decoder which walks
		// the members one by one (e.g. into a Go map) does not fork per presence flag
		for i := range T.has {
			if T.keys[i] == -75006 || T.keys[i] == -75007 {
				continue // profile 1: list and flag exclude each other
			}
			ndAssume(T.has[i])
			T.has[i] = true
		}
	}
	// unknown extra members are ignored, whatever the type of their key
	T.put(99999, &vItem{kind: ikUint, u: 7}, ndBool("extra.key"))
	T.tkey, T.telem, T.thas = "vendor-ext", &vItem{kind: ikUint, u: 7}, ndBool("extra.textkey")
	buf := verifEncodeItem(T)
	dec, err := DecodeAndValidateClaimsFromCBOR(buf)
	accepted := err == nil
	// conformance of everything but the focus claim: the C01 rule set on the generated values
	var restOK bool
	if p2 {
		restOK = g2.c04specExcept(focus)
	} else {
		restOK = g1.c04specExcept(focus)
	}
	conf, verdict := restOK, true
	if hasFocus {
		lc, lv := c04leafConf(p2, fkey, fit)
		conf, verdict = restOK && lc, lv
		if !restOK {
			conf, verdict = false, true // something else is wrong anyway: must be rejected
		}
	} else if focus >= 0 {
		conf = restOK && c04optional(p2, focus)
		if !p2 && focus == 6 {
			conf = restOK // no list: conformant with the flag (which c04specExcept(6) requires)
		}
		if !p2 && focus == 7 {
			conf = restOK && g1.sw.count() > 0 // no flag: conformant with a non-empty well-formed list
		}
	}
	if hasFocus && !p2 && focus == 7 && g1.sw.count() > 0 {
		if _, lv := c04leafConf(p2, fkey, fit); lv {
			conf, verdict = false, true // flag and non-empty list together are never conformant
		} else {
			verdict = false // null / tag / a flag other than 1 next to a list: an open encoding
		}
	}
	if verdict {
		ndAssert("c04-accepted-iff-conformant", accepted == conf)
	}
	if accepted && verdict && focus < 0 {
		// fidelity: every getter returns exactly the wire value
		var ref IClaims
		if p2 {
			ref = g2.c
		} else {
			ref = g1.c
		}
		ndAssert("c04-accepted-values-equal-the-wire", obsSame(obsOf(dec), obsOf(ref), -1))
	}
	if !(p2 && focus == 6) {
		// (profile 2 with the component-list key in focus: the arbitrary item is never a
		// conformant list and the list is mandatory, so nothing is accepted there)
		// (a witness without a tagged item: what the library does with tags 0..3 is outside the model)
		ndCover("c04-accepted", accepted && (fit == nil || fit.kind != ikTag))
	}
	ndCover("c04-rejected-nonconformant", !accepted && verdict && !conf)
}

func c04bstrKey(k int64) bool {
	switch k {
	case -75003, -75004, -75008, -75009, 2396, 2397, 10, 256:
		return true
	}
	return false
}

// the focus claim may be absent without making the token non-conformant
func c04optional(p2 bool, focus int) bool {
	if p2 {
		return focus == 4 || focus == 5 || focus == 9
	}
	return focus == 0 || focus == 5 || focus == 10
}

// c04specExcept: the C01 rule set with the rules about claim number `focus` left out
// (focus numbering follows c04keysP1 / c04keysP2; the component list and, for profile 1,
// the no-measurements flag are judged together, so leaving out either leaves out both)
func (g *genP1) c04specExcept(focus int) bool {
	ok := true
	if focus != 0 {
		ok = ok && (!g.hasProfile || g.profile == "PSA_IOT_PROFILE_1")
	}
	if focus != 1 {
		ok = ok && g.hasClientID
	}
	if focus != 2 {
		ok = ok && g.hasLC && specLifecycleValid(g.lc)
	}
	if focus != 3 {
		ok = ok && g.hasImplID && len(g.implID) == 32
	}
	if focus != 4 {
		ok = ok && g.hasBoot && len(g.boot) == 32
	}
	if focus != 5 {
		ok = ok && (!g.hasCertRef || specEAN13(g.certRef) || specEAN13p5(g.certRef))
	}
	if focus != 6 && focus != 7 {
		if g.sw.count() > 0 {
			ok = ok && !g.hasNoSw && g.sw.allValid()
		} else {
			ok = ok && g.hasNoSw
		}
	}
	if focus == 6 {
		// the list is the arbitrary item (never a conformant non-empty list): conformant only with the flag
		ok = ok && g.hasNoSw
	}
	if focus == 7 {
		// the flag is the focus: the list must then be judged on its own
		ok = ok && (g.sw.count() == 0 || g.sw.allValid())
	}
	if focus != 8 {
		ok = ok && g.hasNonce && specHash(len(g.nonce))
	}
	if focus != 9 {
		ok = ok && g.hasInstID && specInstID(g.instID)
	}
	if focus != 10 {
		ok = ok && (!g.hasVSI || g.vsi != "")
	}
	return ok
}

func (g *genP2) c04specExcept(focus int) bool {
	ok := true
	if focus != 0 {
		ok = ok && g.profKind == 2 && g.profStr == "http://arm.com/psa/2.0.0"
	}
	if focus != 1 {
		ok = ok && g.hasClientID
	}
	if focus != 2 {
		ok = ok && g.hasLC && specLifecycleValid(g.lc)
	}
	if focus != 3 {
		ok = ok && g.hasImplID && len(g.implID) == 32
	}
	if focus != 4 {
		ok = ok && (!g.hasBoot || (len(g.boot) >= 8 && len(g.boot) <= 32))
	}
	if focus != 5 {
		ok = ok && (!g.hasCertRef || specEAN13p5(g.certRef))
	}
	if focus != 6 {
		ok = ok && g.sw.count() > 0 && g.sw.allValid()
	}
	if focus != 7 {
		ok = ok && g.hasNonce && len(g.nonces) == 1 && specHash(len(g.nonces[0]))
	}
	if focus != 8 {
		ok = ok && g.hasInstID && specInstID(g.instID)
	}
	if focus != 9 {
		ok = ok && (!g.hasVSI || g.vsi != "")
	}
	return ok
}
