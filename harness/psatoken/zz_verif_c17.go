//go:build verif

package psatoken

// C17: the read-side API is safe for concurrent use.
// A schedule is not an input of an SSA function, so interleavings are NOT enumerated. What is
// decided: each read-side operation, executed from an arbitrary shared state, performs NO
// write to memory that existed before the call (shared claims-set, shared Evidence, package
// variables: em/dm, the profile register, compiled patterns, sentinel errors). With an empty
// write set, any number of goroutines running these operations only READ shared memory: no
// data race in psatoken's own code for any schedule, and every result equals the sequential
// one (a function of unchanged state). A non-empty write set is confirmed natively by running
// the operation from 16 goroutines under the Go race detector before it is reported.

import (
	"sync"
)

var _ = verifReg("C17", VerifC17)

func c17run(op int, c IClaims, e *Evidence, w *verifWorld, buf []byte, p string) int {
	switch op {
	case 0:
		return obsCls(c.Validate())
	case 1:
		o := obsOf(c)
		return o.lc.cls + o.sw.n
	case 2:
		b, err := EncodeClaimsToCBOR(c)
		return len(b) + obsCls(err)
	case 3:
		b, err := EncodeClaimsToJSON(c)
		return len(b) + obsCls(err)
	case 4:
		n, err := NewClaims(p)
		if err != nil {
			return -1
		}
		_ = n.SetClientID(1) // a fresh instance may be written by its owner
		return verifKind(n)
	case 5:
		d, err := DecodeClaimsFromCBOR(buf)
		if err != nil {
			return -1
		}
		return verifKind(d)
	case 6:
		return obsCls(e.Verify(w.pub(0))) + obsCls(e.Verify(w.pub(1)))
	case 7:
		// signing on DISTINCT Evidence objects that share the (read-only) claims
		e2 := &Evidence{Claims: c}
		t, err := e2.Sign(w.signer(0, 0))
		if err != nil {
			return -1
		}
		if len(t) == 0 {
			return -2
		}
		return 1
	case 8:
		b, err := e.MarshalJSON()
		id := e.GetInstanceID()
		if id == nil {
			return -1
		}
		return len(b) + obsCls(err) + len(*id)
	}
	return 0
}

// c17state: an arbitrary VALID claims-set of the selected profile (components included) that
// NO library function has touched yet, a decodable input for it, and - for the Evidence
// operations - a shared Evidence obtained by DECODING a token signed over it
func c17state(w *verifWorld, needEv bool) (IClaims, *Evidence, []byte, bool) {
	c, _, g1, g2 := verifGenValid()
	var buf []byte
	if ndSymbolic() {
		buf = verifDecodeInput(c, g1, g2, false)
	} else {
		// (natively the input is the real encoding: taken from a second, identical instance so
		// that the shared one stays untouched)
		cB, _, g1B, g2B := verifGenValid()
		buf = verifDecodeInput(cB, g1B, g2B, false)
	}
	if !needEv {
		return c, nil, buf, true
	}
	s := &Evidence{Claims: c}
	tok, err := s.Sign(w.signer(0, 0))
	if err != nil {
		return nil, nil, nil, false
	}
	tbuf := ndCopyBytes(tok)
	if ndSymbolic() {
		if g1 == nil {
			return nil, nil, nil, false // the per-buffer decode script yields profile-1 claims
		}
		verifScript(s.message.Payload, g1)
		verifCose.toks = append(verifCose.toks, verifTokRec{bytes: tbuf, msg: verifCloneMsg(s.message)})
	}
	e, derr := DecodeEvidenceFromCOSE(tbuf)
	if derr != nil {
		return nil, nil, nil, false
	}
	return c, e, buf, true
}

func VerifC17() {
	verifInstallStubs()
	w := verifNewWorld(2)
	op := ndParam("op", 0)
	p := "PSA_IOT_PROFILE_1"
	if ndBool("newclaims.p2") {
		p = "http://arm.com/psa/2.0.0"
	}
	needEv := op == 6 || op == 8
	c, e, buf, ok := c17state(w, needEv)
	if !ok {
		return
	}
	if ndSymbolic() {
		mark := ndWriteMark()
		c17run(op, c, e, w, buf, p)
		ndAssert("c17-no-write-to-preexisting-memory", ndWritesSince(mark) == 0)
		ndCoverSym("c17-ran", true)
		return
	}
	// native: 16 goroutines x 2 runs each under the race detector, all starting from the SAME
	// pre-state the symbolic run starts from (nothing warmed up by an earlier sequential call:
	// a lazily filled cache or a normalise-on-first-use write happens only once); afterwards the
	// sequential reference is computed on a second, identically built instance
	var wg sync.WaitGroup
	gots := make([]int, 32) // one slot per run: no lock, hence no happens-before edge between the workers
	for i := 0; i < 16; i++ {
		wg.Add(1)
		go func(i int) {
			defer wg.Done()
			for k := 0; k < 2; k++ {
				gots[2*i+k] = c17run(op, c, e, w, buf, p)
			}
		}(i)
	}
	wg.Wait()
	c2, e2, buf2, ok := c17state(w, needEv)
	if !ok {
		return
	}
	want := c17run(op, c2, e2, w, buf2, p)
	same := true
	for _, got := range gots {
		if op != 2 && op != 3 && op != 8 && got != want {
			same = false
		}
	}
	ndAssert("c17-no-write-to-preexisting-memory", same)
	ndCover("c17-ran", true)
}
