//go:build verif

package psatoken

// C17: the read-side API is safe for concurrent use.
// A schedule is not an input of an SSA function, so interleavings are NOT enumerated. What is
// decided: each read-side operation, executed from an arbitrary shared state, performs NO
// write to memory that existed before the call (shared claims-set, shared Evidence, package
// variables: em/dm, the profile register, compiled patterns, sentinel errors). With an empty
// write set, any number of goroutines running these operations only READ shared memory: no
// data race in psatoken's own code for any schedule, and every result equals the sequential
// one (a function of unchanged state). A non-empty write set is confirmed natively by running
// the operation from 16 goroutines under the Go race detector before it is reported.

import (
	"sync"
)

var _ = verifReg("C17", VerifC17)

func c17run(op int, c IClaims, e *Evidence, w *verifWorld, buf []byte, p string) int {
	switch op {
	case 0:
		return obsCls(c.Validate())
	case 1:
		o := obsOf(c)
		return o.lc.cls + o.sw.n
	case 2:
		b, err := EncodeClaimsToCBOR(c)
		return len(b) + obsCls(err)
	case 3:
		b, err := EncodeClaimsToJSON(c)
		return len(b) + obsCls(err)
	case 4:
		n, err := NewClaims(p)
		if err != nil {
			return -1
		}
		_ = n.SetClientID(1) // a fresh instance may be written by its owner
		return verifKind(n)
	case 5:
		d, err := DecodeClaimsFromCBOR(buf)
		if err != nil {
			return -1
		}
		return verifKind(d)
	case 6:
		return obsCls(e.Verify(w.pub(0))) + obsCls(e.Verify(w.pub(1)))
	case 7:
		// signing on DISTINCT Evidence objects that share the (read-only) claims
		e2 := &Evidence{Claims: c}
		t, err := e2.Sign(w.signer(0, 0))
		if err != nil {
			return -1
		}
		if len(t) == 0 {
			return -2
		}
		return 1
	case 8:
		b, err := e.MarshalJSON()
		id := e.GetInstanceID()
		if id == nil {
			return -1
		}
		return len(b) + obsCls(err) + len(*id)
	}
	return 0
}

func VerifC17() {
	verifInstallStubs()
	w := verifNewWorld(2)
	op := ndParam("op", 0)
	g := c19valid("x.", ".X")
	c := IClaims(g.c)
	p := "PSA_IOT_PROFILE_1"
	if ndBool("newclaims.p2") {
		p = "http://arm.com/psa/2.0.0"
	}
	e := &Evidence{Claims: c}
	if _, err := e.Sign(w.signer(0, 0)); err != nil {
		return
	}
	buf := verifDecodeInput(c, g, nil, false)
	if ndSymbolic() {
		mark := ndWriteMark()
		c17run(op, c, e, w, buf, p)
		ndAssert("c17-no-write-to-preexisting-memory", ndWritesSince(mark) == 0)
		ndCoverSym("c17-ran", true)
		return
	}
	// native: sequential reference, then 16 goroutines x 2 runs each under the race detector
	want := c17run(op, c, e, w, buf, p)
	var wg sync.WaitGroup
	var mu sync.Mutex
	same := true
	for i := 0; i < 16; i++ {
		wg.Add(1)
		go func() {
			defer wg.Done()
			for k := 0; k < 2; k++ {
				got := c17run(op, c, e, w, buf, p)
				if op != 2 && op != 3 && op != 8 && got != want {
					mu.Lock()
					same = false
					mu.Unlock()
				}
			}
		}()
	}
	wg.Wait()
	ndAssert("c17-no-write-to-preexisting-memory", same)
	ndCover("c17-ran", true)
}
