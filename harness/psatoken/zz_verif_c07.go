//go:build verif

package psatoken

// C07: decoding dispatches on the declared profile, defaulting to profile 1.
// C16: the profile registry is append-only; every claims instance is independent.

import (
	"github.com/veraison/eat"
)

var _ = verifReg("C07cbor", VerifC07cbor)
var _ = verifReg("C07json", VerifC07json)
var _ = verifReg("C16json", VerifC07json)
var _ = verifReg("C07wire", VerifC07wire)
var _ = verifReg("C07new", VerifC07new)
var _ = verifReg("C16reg", VerifC16reg)
var _ = verifReg("C16fresh", VerifC16fresh)

// ---------- an extension profile (embedding profile 2, as the repo's own example does) ----------

type verifXClaims struct {
	P2Claims
	Extra *int64 `cbor:"-75100,keyasint,omitempty" json:"extra,omitempty"`
}

func (o *verifXClaims) Validate() error { return ValidateClaims(o) }

type verifXProfile struct{ name string }

func (p verifXProfile) GetName() string { return p.name }
func (p verifXProfile) GetClaims() IClaims {
	ep := eat.Profile{}
	_ = ep.Set(p.name)
	return &verifXClaims{P2Claims: P2Claims{Profile: &ep, SwComponents: &SwComponents[*SwComponent]{}, CanonicalProfile: p.name}}
}

// a second extension, derived from profile 1 (its profile member is psa-profile / key -75000)
type verifX1Claims struct {
	P1Claims
	Extra *int64 `cbor:"-75100,keyasint,omitempty" json:"extra,omitempty"`
}

func (o *verifX1Claims) Validate() error { return ValidateClaims(o) }

type verifX1Profile struct{ name string }

func (p verifX1Profile) GetName() string { return p.name }
func (p verifX1Profile) GetClaims() IClaims {
	n := p.name
	return &verifX1Claims{P1Claims: P1Claims{Profile: &n, SwComponents: &SwComponents[*SwComponent]{}, CanonicalProfile: p.name}}
}

// a claims type without an identifiable profile field
type verifNoProfileClaims struct {
	P1Claims2 int `cbor:"1,keyasint" json:"x"`
}

func (o *verifNoProfileClaims) Validate() error                                 { return nil }
func (o *verifNoProfileClaims) GetProfile() (string, error)                     { return "", nil }
func (o *verifNoProfileClaims) GetClientID() (int32, error)                     { return 0, nil }
func (o *verifNoProfileClaims) GetSecurityLifeCycle() (uint16, error)           { return 0, nil }
func (o *verifNoProfileClaims) GetImplID() ([]byte, error)                      { return nil, nil }
func (o *verifNoProfileClaims) GetBootSeed() ([]byte, error)                    { return nil, nil }
func (o *verifNoProfileClaims) GetCertificationReference() (string, error)      { return "", nil }
func (o *verifNoProfileClaims) GetSoftwareComponents() ([]ISwComponent, error)  { return nil, nil }
func (o *verifNoProfileClaims) GetNonce() ([]byte, error)                       { return nil, nil }
func (o *verifNoProfileClaims) GetInstID() ([]byte, error)                      { return nil, nil }
func (o *verifNoProfileClaims) GetVSI() (string, error)                         { return "", nil }
func (o *verifNoProfileClaims) SetClientID(int32) error                         { return nil }
func (o *verifNoProfileClaims) SetSecurityLifeCycle(uint16) error               { return nil }
func (o *verifNoProfileClaims) SetImplID([]byte) error                          { return nil }
func (o *verifNoProfileClaims) SetBootSeed([]byte) error                        { return nil }
func (o *verifNoProfileClaims) SetCertificationReference(string) error          { return nil }
func (o *verifNoProfileClaims) SetSoftwareComponents([]ISwComponent) error      { return nil }
func (o *verifNoProfileClaims) SetNonce([]byte) error                           { return nil }
func (o *verifNoProfileClaims) SetInstID([]byte) error                          { return nil }
func (o *verifNoProfileClaims) SetVSI(string) error                             { return nil }

type verifNoProfile struct{ name string }

func (p verifNoProfile) GetName() string    { return p.name }
func (p verifNoProfile) GetClaims() IClaims { return &verifNoProfileClaims{} }

const (
	verifP1Name = "PSA_IOT_PROFILE_1"
	verifP2Name = "http://arm.com/psa/2.0.0"
	verifXName  = "http://example.com/verif-ext"
	verifX1Name = "VERIF_P1_DERIVED_PROFILE"
)

// verifKind: which implementation a claims object is (0 none, 1 profile 1, 2 profile 2, 3 extension)
func verifKind(c IClaims) int {
	switch c.(type) {
	case *P1Claims:
		return 1
	case *P2Claims:
		return 2
	case *verifXClaims:
		return 3
	case *verifX1Claims:
		return 4
	}
	return 0
}

// native replay runs all cases of a batch in one process: the profile register is restored to
// its post-init content before each case (symbolic runs start from the post-init register anyway)
var verifRegSnap = map[string]interface{}{}
var verifRegSnapped bool

func init() {
	verifCaseReset = func() {
		if !verifRegSnapped {
			for k, v := range profilesRegister {
				verifRegSnap[k] = v
			}
			verifRegSnapped = true
			return
		}
		for k := range profilesRegister {
			if _, ok := verifRegSnap[k]; !ok {
				delete(profilesRegister, k)
			}
		}
	}
}

func verifRegisterExtras() int {
	n := ndConcrete(verifChoice("extras", 3))
	ndAssume(n <= ndParam("maxextras", 2) && n >= ndParam("minextras", 0))
	if n >= 1 {
		if err := RegisterProfile(verifXProfile{verifXName}); err != nil {
			ndAssert("c07-extra-registration", false)
		}
	}
	if n >= 2 {
		if err := RegisterProfile(verifX1Profile{verifX1Name}); err != nil {
			ndAssert("c07-extra-registration", false)
		}
	}
	return n
}

// wantKind: the implementation the registry state prescribes for declared profile p
func verifWantKind(p string, extras int) int {
	switch p {
	case "", verifP1Name:
		return 1
	case verifP2Name:
		return 2
	case verifXName:
		if extras >= 1 {
			return 3
		}
	case verifX1Name:
		if extras >= 2 {
			return 4
		}
	}
	return 0
}

var verifProfileNames = [6]string{"", verifP1Name, verifP2Name, verifXName, "http://example.com/never-registered", verifX1Name}

// verifPickProfileString: "", one of the three known names, or an arbitrary string.
// (The choice is concretised and looked up in a table so that each path sees a CONSTANT
// name: a function returning one of several strings would be merged into a symbolic one.)
func verifPickProfileString(name string) string {
	k := ndConcrete(verifChoice(name+".which", 6))
	if k == 4 {
		return ndString(name+".text", 26)
	}
	return verifProfileNames[k]
}

func VerifC07cbor() {
	verifInstallStubs()
	extras := verifRegisterExtras()
	if !ndSymbolic() {
		return // this harness speaks about the selector stub; natively C07json/C07new and the C04/C09 checks run the real decoders
	}
	p := verifPickProfileString("declared")
	verifStub.selProf = p
	// whatever claims type is selected, the claims decoder yields something arbitrary of that type
	g1 := genP1Claims(0, 4)
	verifGenPfx = "q."
	g2 := genP2Claims(1, 4, 1)
	verifGenPfx = ""
	verifStub.p1, verifStub.p2 = g1, g2
	buf := ndBytes("input")
	ndAssume(len(buf) > 0)
	verifMapLike(buf)
	c, err := DecodeClaimsFromCBOR(buf)
	want := verifWantKind(p, extras)
	ndAssert("c07-cbor-unregistered-profile-is-error", want != 0 || err != nil)
	if err == nil {
		ndAssert("c07-cbor-dispatch-on-declared-profile", verifKind(c) == want)
		ndAssert("c07-cbor-both-passes-read-the-callers-buffer", len(verifStub.bufs) >= 2 && verifIsSameBuffer(verifStub.bufs[0], buf) && verifIsSameBuffer(verifStub.bufs[len(verifStub.bufs)-1], buf))
		if verifValid(c) {
			got, gerr := c.GetProfile()
			wantName := p
			if p == "" {
				wantName = verifP1Name
			}
			ndAssert("c07-cbor-accepted-token-reports-declared-profile", gerr == nil && got == wantName)
		}
	}
	ndCoverSym("c07-cbor-default", err == nil && p == "" && verifKind(c) == 1)
	ndCoverSym("c07-cbor-unknown", err != nil && want == 0)
}

func VerifC07json() {
	verifInstallStubs()
	extras := verifRegisterExtras()
	// the decoded top-level object: each registered profile member absent / string / number
	m := map[string]interface{}{}
	var psa, eatp string
	psaKind := ndConcrete(verifChoice("psa-profile.kind", 3))
	eatKind := ndConcrete(verifChoice("eat-profile.kind", 3))
	if k := ndParam("psakind", -1); k >= 0 {
		ndAssume(psaKind == k)
	}
	if k := ndParam("eatkind", -1); k >= 0 {
		ndAssume(eatKind == k)
	}
	switch psaKind {
	case 1:
		psa = verifPickProfileString("psa-profile")
		m["psa-profile"] = psa
	case 2:
		m["psa-profile"] = float64(1)
	}
	switch eatKind {
	case 1:
		eatp = verifPickProfileString("eat-profile")
		m["eat-profile"] = eatp
	case 2:
		m["eat-profile"] = float64(1)
	}
	m["other"] = "x"
	verifStub.jsonMap = m
	g1 := genP1Claims(0, 4)
	verifGenPfx = "q."
	g2 := genP2Claims(1, 4, 1)
	verifGenPfx = ""
	verifStub.p1, verifStub.p2 = g1, g2
	var buf []byte
	if ndSymbolic() {
		buf = ndBytes("input")
		ndAssume(len(buf) > 0)
	} else {
		buf = verifNativeJSON(psaKind, psa, eatKind, eatp)
	}
	c, err := DecodeClaimsFromJSON(buf)
	if ndParam("twice", 0) == 1 {
		// C16: the same outcome on every call, whatever order the register is iterated in
		// (symbolic: every order of every range; native: many calls)
		n := 1
		if !ndSymbolic() {
			n = 200
		}
		same := true
		for i := 0; i < n; i++ {
			c2, err2 := DecodeClaimsFromJSON(buf)
			same = same && (err == nil) == (err2 == nil) && (err != nil || verifKind(c) == verifKind(c2))
		}
		ndAssert("c16-json-dispatch-same-outcome-on-every-call", same)
	}
	// verdicts (the property gives none for a member present under BOTH keys or for non-string values)
	if psaKind == 0 && eatKind == 0 {
		ndAssert("c07-json-no-profile-member-defaults-to-profile-1", (err == nil && verifKind(c) == 1) || (err != nil && verifStub.ndErr))
	}
	if psaKind == 1 && eatKind == 0 {
		if psa == verifP1Name {
			ndAssert("c07-json-psa-profile-dispatch", (err == nil && verifKind(c) == 1) || (err != nil && verifStub.ndErr))
		} else if psa == verifX1Name && extras >= 2 {
			ndAssert("c07-json-psa-profile-extension-dispatch", (err == nil && verifKind(c) == 4) || (err != nil && verifStub.ndErr))
		} else {
			ndAssert("c07-json-unregistered-profile-is-error", err != nil)
		}
	}
	if eatKind == 1 && psaKind == 0 {
		want := verifWantKind(eatp, extras)
		if want == 4 {
			// the profile-1-derived extension's name under profile 2's member: no verdict
		} else if want >= 2 {
			ndAssert("c07-json-eat-profile-dispatch", (err == nil && verifKind(c) == want) || (err != nil && verifStub.ndErr))
		} else {
			ndAssert("c07-json-unregistered-profile-is-error", err != nil)
		}
	}
	if psaKind == 0 && eatKind == 0 {
		ndCover("c07-json-default", err == nil)
	}
	if psaKind == 0 && eatKind == 1 {
		ndCover("c07-json-p2", err == nil && verifKind(c) == 2)
	}
	ndCoverSym("c07-json-ran", true)
}

// verifNativeJSON: a real JSON document with the requested profile members (other members are
// those of a minimal token of the selected shape)
func verifNativeJSON(psaKind int, psa string, eatKind int, eatp string) []byte {
	s := `{"other":"x"`
	switch psaKind {
	case 1:
		s += `,"psa-profile":"` + verifJSONEscape(psa) + `"`
	case 2:
		s += `,"psa-profile":1`
	}
	switch eatKind {
	case 1:
		s += `,"eat-profile":"` + verifJSONEscape(eatp) + `"`
	case 2:
		s += `,"eat-profile":1`
	}
	return []byte(s + "}")
}

func verifJSONEscape(s string) string {
	out := ""
	for i := 0; i < len(s); i++ {
		c := s[i]
		if c < 0x20 || c >= 0x7f || c == '"' || c == '\\' {
			panic(verifAbort{"profile text not representable in the native JSON builder"})
		}
		out += string(c)
	}
	return out
}

func VerifC07new() {
	extras := verifRegisterExtras()
	p := verifPickProfileString("name")
	c, err := NewClaims(p)
	want := verifWantKind(p, extras)
	ndAssert("c07-newclaims-unregistered-is-error", want != 0 || err != nil)
	ndAssert("c07-newclaims-registered-succeeds", want == 0 || (err == nil && verifKind(c) == want))
	if err == nil && p != "" {
		got, gerr := c.GetProfile()
		ndAssert("c07-newclaims-reports-its-profile", gerr == nil && got == p)
	}
	ndCover("c07-new-p2", err == nil && verifKind(c) == 2)
	ndCover("c07-new-unknown", err != nil)
}

// ---------- C16 ----------

// c16lookup: what the registry resolves a profile name to, through NewClaims and (symbolic
// mode) through the CBOR dispatcher with the selector stub declaring that name
func c16lookup(name string) int {
	k := 0
	if c, err := NewClaims(name); err == nil {
		k = verifKind(c)
	}
	if ndSymbolic() {
		verifStub.selProf = name
		verifStub.bufs = nil
		d := 0
		if c, err := DecodeClaimsFromCBOR(c16buf()); err == nil {
			d = verifKind(c)
		}
		k = k*10 + d
	}
	return k
}

func c16buf() []byte {
	b := ndBytes("c16.input")
	ndAssume(len(b) > 0)
	verifMapLike(b)
	return b
}

// one inductive step: from the registry after 0..1 extra registrations, one more RegisterProfile
func VerifC16reg() {
	verifInstallStubs()
	if ndSymbolic() {
		// the claims decoder always succeeds with something arbitrary: only dispatch is observed
		verifStub.p1 = genP1Claims(0, 4)
		verifGenPfx = "q."
		verifStub.p2 = genP2Claims(1, 4, 1)
		verifGenPfx = ""
		ndAssume(!ndBool("dm.err.selector") && !ndBool("dm.err.claims"))
	}
	extras := verifRegisterExtras()
	probe := verifPickProfileString("probe")
	before := c16lookup(probe)
	nBefore := len(profilesRegister)
	var err error
	var newName string
	mode := ndConcrete(verifChoice("register", 3))
	switch mode {
	case 0: // a name that may collide with a registered one
		newName = verifProfileNames[ndConcrete(verifChoice("newname.which", 6))]
		err = RegisterProfile(verifXProfile{newName})
	case 1: // claims type without an identifiable profile field
		newName = "http://example.com/no-profile-field"
		err = RegisterProfile(verifNoProfile{newName})
	case 2: // re-register a built-in
		newName = verifP2Name
		err = RegisterProfile(Profile2{})
	}
	collides := verifWantKind(newName, extras) != 0 || newName == ""
	after := c16lookup(probe)
	if mode == 0 {
		ndAssert("c16-existing-name-is-rejected", !collides || err != nil)
		ndAssert("c16-new-name-is-accepted", collides || err == nil)
	} else {
		ndAssert("c16-unidentifiable-or-duplicate-is-rejected", err != nil)
	}
	if err != nil {
		ndAssert("c16-failed-registration-changes-no-lookup", after == before && len(profilesRegister) == nBefore)
	} else {
		ndAssert("c16-registration-changes-only-its-own-name", probe == newName || after == before)
		r := c16lookup(newName)
		ndAssert("c16-registered-name-resolves", (r == 3 || r == 33 || r == 30) && len(profilesRegister) == nBefore+1)
	}
	ndCover("c16-register-ok", err == nil)
	ndCover("c16-register-collision", err != nil && mode == 0)
}

// two results of NewClaims share no mutable state
func VerifC16fresh() {
	p := verifP1Name
	if ndBool("p2") {
		p = verifP2Name
	}
	a, e1 := NewClaims(p)
	b, e2 := NewClaims(p)
	if e1 != nil || e2 != nil {
		ndAssert("c16-newclaims", false)
		return
	}
	ndAssert("c16-distinct-instances", a != b)
	ndAssert("c16-instances-share-no-memory", !ndShares(a, b))
	pre := obsOf(b)
	g := genSwComponent("sc", 4)
	ndAssume(g.specValid())
	_ = a.SetClientID(ndInt32("cid"))
	_ = a.SetSecurityLifeCycle(ndUint16("lc"))
	_ = a.SetNonce(ndBytes("nonce"))
	_ = a.SetVSI(ndString("vsi", 4))
	_ = a.SetSoftwareComponents([]ISwComponent{g.sc})
	ndAssert("c16-mutating-one-instance-leaves-the-other-unchanged", obsSame(pre, obsOf(b), -1))
	scs, _ := a.GetSoftwareComponents()
	ndCover("c16-mutated", len(scs) == 1)
}

// C07 on the wire (L3): an otherwise arbitrary profile-1 token that ALSO carries key 265 (the
// profile claim of the other profile) with an item of any kind. Unless that item is null, a
// tag, the empty string or the profile-1 name (encodings without a verdict), the token declares
// something that is not a registered profile it conforms to: decoding-and-validating it fails.
func VerifC07wire() {
	l3install()
	T, _, _, _, _, _, _ := c04token()
	it := c04arbitrary("k265")
	T.put(265, it, true)
	buf := verifEncodeItem(T)
	_, err := DecodeAndValidateClaimsFromCBOR(buf)
	verdict := it.kind != ikNull && it.kind != ikTag && !(it.kind == ikTstr && (it.s == verifP1Name || it.s == ""))
	if verdict {
		ndAssert("c07-wire-foreign-or-malformed-profile-claim-is-error", err != nil)
	}
	ndCover("c07-wire-nontext-rejected", err != nil && it.kind == ikUint)
	ndCover("c07-wire-accepted", err == nil)
}
