//go:build verif

package psatoken

// Symbolic claims-set generators and the independent specification predicates (oracles).
// The oracles use only literals taken from the property statements; they call nothing in
// the repository.

import (
	"github.com/veraison/eat"
)

// ---------- foreign values with unexported representation ----------

func verifCBORBstr(b []byte) []byte {
	n := len(b)
	var out []byte
	switch {
	case n < 24:
		out = append(out, 0x40|byte(n))
	case n < 256:
		out = append(out, 0x58, byte(n))
	case n < 65536:
		out = append(out, 0x59, byte(n>>8), byte(n))
	default:
		out = append(out, 0x5a, byte(n>>24), byte(n>>16), byte(n>>8), byte(n))
	}
	return append(out, b...)
}

// ndNonceEmpty: a non-nil *eat.Nonce with zero entries.
func ndNonceEmpty() *eat.Nonce { return &eat.Nonce{} }

// ndNonceAppend returns a nonce list equal to n plus one more entry holding b (of ANY
// length: natively this goes through the type's own CBOR decoder, which is the only way a
// nonce of e.g. 4 bytes can exist at run time, and is how it arises in production).
func ndNonceAppend(n *eat.Nonce, b []byte) *eat.Nonce {
	k := n.Len()
	var enc []byte
	if k == 0 {
		enc = verifCBORBstr(b)
	} else {
		enc = append(enc, 0x80|byte(k+1))
		for i := 0; i < k; i++ {
			enc = append(enc, verifCBORBstr(n.GetI(i))...)
		}
		enc = append(enc, verifCBORBstr(b)...)
	}
	out := &eat.Nonce{}
	if err := out.UnmarshalCBOR(enc); err != nil {
		panic(verifAbort{"nonce construction: " + err.Error()})
	}
	return out
}

// ndEatProfile: a profile holding an arbitrary absolute-URI string (grammar in engine/eat.go).
// kind: 0 = nil pointer, 1 = zero value (holds nothing), 2 = holds the URI string.
func ndEatProfile(name string, max int) (*eat.Profile, int, string) {
	s := ndString(name, max)
	kind := 2
	if !ndBool(name + ".present") {
		kind = 0
	} else if ndBool(name + ".zero") {
		kind = 1
	}
	if kind == 0 {
		return nil, 0, ""
	}
	if kind == 1 {
		return &eat.Profile{}, 1, ""
	}
	p := &eat.Profile{}
	if err := p.Set(s); err != nil {
		panic(verifAbort{"profile construction: " + err.Error()})
	}
	if got, err := p.Get(); err != nil || got != s {
		panic(verifAbort{"profile string is not in normal form"})
	}
	return p, 2, s
}

// genNonce: nil, or a list of 0..max entries of arbitrary length.
func genNonce(pfx string, max int) ([][]byte, *eat.Nonce) {
	k := ndInt(pfx + ".n")
	ndAssume(k >= 0 && k <= max)
	var bs [][]byte
	n := ndNonceEmpty()
	for i := 0; i < k; i++ {
		b := ndBytes(ndName(pfx, i))
		bs = append(bs, b)
		n = ndNonceAppend(n, b)
	}
	return bs, ndOpt(pfx+".present", n)
}

// verifPut stores src (a pointer to a generated value) into the claims field *dst, present
// iff the nd boolean `name`. It is typed at RUN time, so that the harness still compiles when
// a field's Go type is changed in the tree under check (pointer <-> value, int32 <-> int64, ...):
// such an edit then changes behaviour, not compilability.
func verifPut(dst interface{}, name string, src interface{}) {
	has := ndBool(name)
	switch d := dst.(type) {
	case **string:
		*d = ndOpt(name, src.(*string))
	case *string:
		if has {
			*d = *src.(*string)
		}
	case **int32:
		*d = ndOpt(name, src.(*int32))
	case **int64:
		x := int64(*src.(*int32))
		*d = ndOpt(name, &x)
	case **int:
		x := int(*src.(*int32))
		*d = ndOpt(name, &x)
	case **uint16:
		*d = ndOpt(name, src.(*uint16))
	case **uint32:
		x := uint32(*src.(*uint16))
		*d = ndOpt(name, &x)
	case **uint64:
		switch v := src.(type) {
		case *uint16:
			x := uint64(*v)
			*d = ndOpt(name, &x)
		case *uint:
			x := uint64(*v)
			*d = ndOpt(name, &x)
		}
	case **uint:
		switch v := src.(type) {
		case *uint:
			*d = ndOpt(name, v)
		case *uint16:
			x := uint(*v)
			*d = ndOpt(name, &x)
		}
	case **[]byte:
		*d = ndOpt(name, src.(*[]byte))
	case *[]byte:
		if has {
			*d = *src.(*[]byte)
		}
	case **eat.UEID:
		u := eat.UEID(*src.(*[]byte))
		*d = ndOpt(name, &u)
	case *eat.UEID:
		if has {
			*d = eat.UEID(*src.(*[]byte))
		}
	default:
		panic(verifAbort{"generator: field type not handled"})
	}
}

// verifPutAlways: the field is set (run-time typed like verifPut)
func verifPutAlways(dst interface{}, src *uint16) {
	switch d := dst.(type) {
	case **uint16:
		*d = src
	case **uint32:
		x := uint32(*src)
		*d = &x
	case **uint64:
		x := uint64(*src)
		*d = &x
	case **uint:
		x := uint(*src)
		*d = &x
	case **int:
		x := int(*src)
		*d = &x
	case **int32:
		x := int32(*src)
		*d = &x
	default:
		panic(verifAbort{"lifecycle field type not handled"})
	}
}

// ---------- generators ----------

// verifGenPfx is prepended to every nd variable name of the claims generators, so that a
// harness can draw several independent claims-sets.
var verifGenPfx string

// verifGenNilElems: component lists may contain nil elements (decoded `null`), C05 only.
var verifGenNilElems bool

func gn(name string) string { return verifGenPfx + name }

type genSw struct {
	sc                       *SwComponent
	hasMT, hasMV, hasVer     bool
	hasSID, hasDesc          bool
	mt, ver, desc            string
	mv, sid                  []byte
}

func genSwComponent(pfx string, strMax int) *genSw {
	g := &genSw{}
	g.mt = ndString(pfx+".mt", strMax)
	g.ver = ndString(pfx+".ver", strMax)
	g.desc = ndString(pfx+".desc", strMax)
	g.mv = ndBytes(pfx + ".mv")
	g.sid = ndBytes(pfx + ".sid")
	sc := &SwComponent{}
	verifPut(&sc.MeasurementType, pfx+".has.mt", &g.mt)
	verifPut(&sc.MeasurementValue, pfx+".has.mv", &g.mv)
	verifPut(&sc.Version, pfx+".has.ver", &g.ver)
	verifPut(&sc.SignerID, pfx+".has.sid", &g.sid)
	verifPut(&sc.MeasurementDesc, pfx+".has.desc", &g.desc)
	g.hasMT = ndBool(pfx + ".has.mt")
	g.hasMV = ndBool(pfx + ".has.mv")
	g.hasVer = ndBool(pfx + ".has.ver")
	g.hasSID = ndBool(pfx + ".has.sid")
	g.hasDesc = ndBool(pfx + ".has.desc")
	g.sc = sc
	return g
}

func specHash(n int) bool { return n == 32 || n == 48 || n == 64 }

func (g *genSw) specValid() bool {
	return g.hasMV && specHash(len(g.mv)) && g.hasSID && specHash(len(g.sid))
}

// genSwList: swKind 0 = nil interface, 1 = container with n components (0..maxN).
type genSws struct {
	isNilIface bool
	comps      []*genSw
	container  *SwComponents[*SwComponent]
}

func genSwComponents(pfx string, maxN, strMax int) *genSws {
	g := &genSws{}
	g.isNilIface = ndBool(pfx + ".niliface")
	if g.isNilIface {
		return g
	}
	n := ndInt(pfx + ".n")
	ndAssume(n >= 0 && n <= maxN)
	var vals []*SwComponent
	for i := 0; i < n; i++ {
		c := genSwComponent(ndName(pfx, i), strMax)
		g.comps = append(g.comps, c)
		if verifGenNilElems {
			// a decoder fills a list element given as null with a nil pointer
			vals = append(vals, ndOpt(ndName(pfx, i)+".notnull", c.sc))
		} else {
			vals = append(vals, c.sc)
		}
	}
	g.container = &SwComponents[*SwComponent]{values: vals}
	return g
}

func (g *genSws) iface() ISwComponents {
	if g.isNilIface {
		return nil
	}
	return g.container
}

func (g *genSws) count() int { return len(g.comps) }

func (g *genSws) allValid() bool {
	for _, c := range g.comps {
		if !c.specValid() {
			return false
		}
	}
	return true
}

type genP1 struct {
	c                                                    *P1Claims
	hasProfile, hasClientID, hasLC, hasImplID, hasBoot   bool
	hasCertRef, hasNoSw, hasNonce, hasInstID, hasVSI     bool
	profile, certRef, vsi                                string
	clientID                                             int32
	lc                                                   uint16
	implID, boot, nonce, instID                          []byte
	noSw                                                 uint
	sw                                                   *genSws
}

func genP1Claims(maxN, strMax int) *genP1 {
	g := &genP1{}
	g.profile = ndString(gn("profile"), 20)
	g.certRef = ndString(gn("certref"), 24)
	g.vsi = ndString(gn("vsi"), strMax)
	g.clientID = ndInt32(gn("clientid"))
	g.lc = ndUint16(gn("lifecycle"))
	g.implID = ndBytes(gn("implid"))
	g.boot = ndBytes(gn("bootseed"))
	g.nonce = ndBytes(gn("nonce"))
	g.instID = ndBytes(gn("instid"))
	g.noSw = ndUint(gn("nosw"))
	g.sw = genSwComponents(gn("sw"), maxN, strMax)
	c := &P1Claims{CanonicalProfile: "PSA_IOT_PROFILE_1"}
	verifPut(&c.Profile, gn("has.profile"), &g.profile)
	verifPut(&c.ClientID, gn("has.clientid"), &g.clientID)
	verifPut(&c.SecurityLifeCycle, gn("has.lifecycle"), &g.lc)
	verifPut(&c.ImplID, gn("has.implid"), &g.implID)
	verifPut(&c.BootSeed, gn("has.bootseed"), &g.boot)
	verifPut(&c.CertificationReference, gn("has.certref"), &g.certRef)
	verifPut(&c.NoSwMeasurements, gn("has.nosw"), &g.noSw)
	verifPut(&c.Nonce, gn("has.nonce"), &g.nonce)
	verifPut(&c.InstID, gn("has.instid"), &g.instID)
	verifPut(&c.VSI, gn("has.vsi"), &g.vsi)
	g.hasProfile = ndBool(gn("has.profile"))
	g.hasClientID = ndBool(gn("has.clientid"))
	g.hasLC = ndBool(gn("has.lifecycle"))
	g.hasImplID = ndBool(gn("has.implid"))
	g.hasBoot = ndBool(gn("has.bootseed"))
	g.hasCertRef = ndBool(gn("has.certref"))
	g.hasNoSw = ndBool(gn("has.nosw"))
	g.hasNonce = ndBool(gn("has.nonce"))
	g.hasInstID = ndBool(gn("has.instid"))
	g.hasVSI = ndBool(gn("has.vsi"))
	c.SwComponents = g.sw.iface()
	g.c = c
	return g
}

// ---------- oracles (literals from the property text only) ----------

func specLifecycleValid(v uint16) bool {
	return v&0x0f00 == 0 && v>>12 <= 6
}

func specDigits(s string, from, n int) bool {
	for i := from; i < from+n; i++ {
		if s[i] < '0' || s[i] > '9' {
			return false
		}
	}
	return true
}

func specEAN13(s string) bool { return len(s) == 13 && specDigits(s, 0, 13) }

func specEAN13p5(s string) bool {
	return len(s) == 19 && specDigits(s, 0, 13) && s[13] == '-' && specDigits(s, 14, 5)
}

func specInstID(b []byte) bool { return len(b) == 33 && b[0] == 0x01 }

// specP1 is the profile-1 rule set of property C01.
func (g *genP1) specValid() bool { return g.specValidExcept(false) }

// specValidExcept(true): every rule except the security-lifecycle one
func (g *genP1) specValidExcept(skipLC bool) bool {
	if g.hasProfile && g.profile != "PSA_IOT_PROFILE_1" {
		return false
	}
	if !g.hasClientID {
		return false
	}
	if !skipLC && (!g.hasLC || !specLifecycleValid(g.lc)) {
		return false
	}
	if !g.hasImplID || len(g.implID) != 32 {
		return false
	}
	if !g.hasBoot || len(g.boot) != 32 {
		return false
	}
	if g.hasCertRef && !specEAN13(g.certRef) && !specEAN13p5(g.certRef) {
		return false
	}
	if !g.hasNonce || !specHash(len(g.nonce)) {
		return false
	}
	if !g.hasInstID || !specInstID(g.instID) {
		return false
	}
	if g.hasVSI && g.vsi == "" {
		return false
	}
	// at least one well-formed component, or the no-measurements flag, never both
	if g.sw.count() > 0 {
		if g.hasNoSw || !g.sw.allValid() {
			return false
		}
	} else if !g.hasNoSw {
		return false
	}
	return true
}

type genP2 struct {
	c                                                  *P2Claims
	profKind                                           int // 0 nil, 1 zero value, 2 holds a URI
	profStr                                            string
	hasClientID, hasLC, hasImplID, hasBoot, hasCertRef bool
	hasNonce, hasInstID, hasVSI                        bool
	certRef, vsi                                       string
	clientID                                           int32
	lc                                                 uint16
	implID, boot, instID                               []byte
	nonces                                             [][]byte
	sw                                                 *genSws
}

func genP2Claims(maxN, strMax, maxNonce int) *genP2 {
	g := &genP2{}
	g.certRef = ndString(gn("certref"), 24)
	g.vsi = ndString(gn("vsi"), strMax)
	g.clientID = ndInt32(gn("clientid"))
	g.lc = ndUint16(gn("lifecycle"))
	g.implID = ndBytes(gn("implid"))
	g.boot = ndBytes(gn("bootseed"))
	g.instID = ndBytes(gn("instid"))
	g.sw = genSwComponents(gn("sw"), maxN, strMax)
	c := &P2Claims{CanonicalProfile: "http://arm.com/psa/2.0.0"}
	c.Profile, g.profKind, g.profStr = ndEatProfile(gn("profile"), 26)
	verifPut(&c.ClientID, gn("has.clientid"), &g.clientID)
	verifPut(&c.SecurityLifeCycle, gn("has.lifecycle"), &g.lc)
	verifPut(&c.ImplID, gn("has.implid"), &g.implID)
	verifPut(&c.BootSeed, gn("has.bootseed"), &g.boot)
	verifPut(&c.CertificationReference, gn("has.certref"), &g.certRef)
	verifPut(&c.VSI, gn("has.vsi"), &g.vsi)
	verifPut(&c.InstID, gn("has.instid"), &g.instID)
	g.nonces, c.Nonce = genNonce(gn("nonce"), maxNonce)
	g.hasClientID = ndBool(gn("has.clientid"))
	g.hasLC = ndBool(gn("has.lifecycle"))
	g.hasImplID = ndBool(gn("has.implid"))
	g.hasBoot = ndBool(gn("has.bootseed"))
	g.hasCertRef = ndBool(gn("has.certref"))
	g.hasNonce = c.Nonce != nil
	g.hasInstID = ndBool(gn("has.instid"))
	g.hasVSI = ndBool(gn("has.vsi"))
	c.SwComponents = g.sw.iface()
	g.c = c
	return g
}

func (g *genP2) specValid() bool {
	if g.profKind != 2 || g.profStr != "http://arm.com/psa/2.0.0" {
		return false
	}
	if !g.hasClientID {
		return false
	}
	if !g.hasLC || !specLifecycleValid(g.lc) {
		return false
	}
	if !g.hasImplID || len(g.implID) != 32 {
		return false
	}
	if g.hasBoot && (len(g.boot) < 8 || len(g.boot) > 32) {
		return false
	}
	if g.hasCertRef && !specEAN13p5(g.certRef) {
		return false
	}
	if !g.hasNonce || len(g.nonces) != 1 || !specHash(len(g.nonces[0])) {
		return false
	}
	if !g.hasInstID || !specInstID(g.instID) {
		return false
	}
	if g.hasVSI && g.vsi == "" {
		return false
	}
	if g.sw.count() == 0 || !g.sw.allValid() {
		return false
	}
	return true
}
