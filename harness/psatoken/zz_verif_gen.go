//go:build verif

package psatoken

// Symbolic claims-set generators and the independent specification predicates (oracles).
// The oracles use only literals taken from the property statements; they call nothing in
// the repository.

import (
	"github.com/veraison/eat"
)

// ---------- foreign values with unexported representation ----------

func verifCBORBstr(b []byte) []byte {
	n := len(b)
	var out []byte
	switch {
	case n < 24:
		out = append(out, 0x40|byte(n))
	case n < 256:
		out = append(out, 0x58, byte(n))
	case n < 65536:
		out = append(out, 0x59, byte(n>>8), byte(n))
	default:
		out = append(out, 0x5a, byte(n>>24), byte(n>>16), byte(n>>8), byte(n))
	}
	return append(out, b...)
}

// ndNonceEmpty: a non-nil *eat.Nonce with zero entries.
func ndNonceEmpty() *eat.Nonce { return &eat.Nonce{} }

// ndNonceAppend returns a nonce list equal to n plus one more entry holding b (of ANY
// length: natively this goes through the type's own CBOR decoder, which is the only way a
// nonce of e.g. 4 bytes can exist at run time, and is how it arises in production).
func ndNonceAppend(n *eat.Nonce, b []byte) *eat.Nonce {
	k := n.Len()
	var enc []byte
	if k == 0 {
		enc = verifCBORBstr(b)
	} else {
		enc = append(enc, 0x80|byte(k+1))
		for i := 0; i < k; i++ {
			enc = append(enc, verifCBORBstr(n.GetI(i))...)
		}
		enc = append(enc, verifCBORBstr(b)...)
	}
	out := &eat.Nonce{}
	if err := out.UnmarshalCBOR(enc); err != nil {
		panic(verifAbort{"nonce construction: " + err.Error()})
	}
	return out
}

// ndEatProfile: a profile holding an arbitrary absolute-URI string (grammar in engine/eat.go).
// kind: 0 = nil pointer, 1 = zero value (holds nothing), 2 = holds the URI string.
func ndEatProfile(name string, max int) (*eat.Profile, int, string) {
	s := ndString(name, max)
	kind := 2
	if !ndBool(name + ".present") {
		kind = 0
	} else if ndBool(name + ".zero") {
		kind = 1
	}
	if kind == 0 {
		return nil, 0, ""
	}
	if kind == 1 {
		return &eat.Profile{}, 1, ""
	}
	p := &eat.Profile{}
	if err := p.Set(s); err != nil {
		panic(verifAbort{"profile construction: " + err.Error()})
	}
	if got, err := p.Get(); err != nil || got != s {
		panic(verifAbort{"profile string is not in normal form"})
	}
	return p, 2, s
}

// genNonce: nil, or a list of 0..max entries of arbitrary length.
func genNonce(pfx string, max int) ([][]byte, *eat.Nonce) {
	k := ndInt(pfx + ".n")
	ndAssume(k >= 0 && k <= max)
	var bs [][]byte
	n := ndNonceEmpty()
	for i := 0; i < k; i++ {
		b := ndBytes(ndName(pfx, i))
		bs = append(bs, b)
		n = ndNonceAppend(n, b)
	}
	return bs, ndOpt(pfx+".present", n)
}

// ---------- generators ----------

// verifGenPfx is prepended to every nd variable name of the claims generators, so that a
// harness can draw several independent claims-sets.
var verifGenPfx string

// verifGenNilElems: component lists may contain nil elements (decoded `null`), C05 only.
var verifGenNilElems bool

func gn(name string) string { return verifGenPfx + name }

type genSw struct {
	sc                       *SwComponent
	hasMT, hasMV, hasVer     bool
	hasSID, hasDesc          bool
	mt, ver, desc            string
	mv, sid                  []byte
}

func genSwComponent(pfx string, strMax int) *genSw {
	g := &genSw{}
	g.mt = ndString(pfx+".mt", strMax)
	g.ver = ndString(pfx+".ver", strMax)
	g.desc = ndString(pfx+".desc", strMax)
	g.mv = ndBytes(pfx + ".mv")
	g.sid = ndBytes(pfx + ".sid")
	sc := &SwComponent{}
	sc.MeasurementType = ndOpt(pfx+".has.mt", &g.mt)
	sc.MeasurementValue = ndOpt(pfx+".has.mv", &g.mv)
	sc.Version = ndOpt(pfx+".has.ver", &g.ver)
	sc.SignerID = ndOpt(pfx+".has.sid", &g.sid)
	sc.MeasurementDesc = ndOpt(pfx+".has.desc", &g.desc)
	g.hasMT = sc.MeasurementType != nil
	g.hasMV = sc.MeasurementValue != nil
	g.hasVer = sc.Version != nil
	g.hasSID = sc.SignerID != nil
	g.hasDesc = sc.MeasurementDesc != nil
	g.sc = sc
	return g
}

func specHash(n int) bool { return n == 32 || n == 48 || n == 64 }

func (g *genSw) specValid() bool {
	return g.hasMV && specHash(len(g.mv)) && g.hasSID && specHash(len(g.sid))
}

// genSwList: swKind 0 = nil interface, 1 = container with n components (0..maxN).
type genSws struct {
	isNilIface bool
	comps      []*genSw
	container  *SwComponents[*SwComponent]
}

func genSwComponents(pfx string, maxN, strMax int) *genSws {
	g := &genSws{}
	g.isNilIface = ndBool(pfx + ".niliface")
	if g.isNilIface {
		return g
	}
	n := ndInt(pfx + ".n")
	ndAssume(n >= 0 && n <= maxN)
	var vals []*SwComponent
	for i := 0; i < n; i++ {
		c := genSwComponent(ndName(pfx, i), strMax)
		g.comps = append(g.comps, c)
		if verifGenNilElems {
			// a decoder fills a list element given as null with a nil pointer
			vals = append(vals, ndOpt(ndName(pfx, i)+".notnull", c.sc))
		} else {
			vals = append(vals, c.sc)
		}
	}
	g.container = &SwComponents[*SwComponent]{values: vals}
	return g
}

func (g *genSws) iface() ISwComponents {
	if g.isNilIface {
		return nil
	}
	return g.container
}

func (g *genSws) count() int { return len(g.comps) }

func (g *genSws) allValid() bool {
	for _, c := range g.comps {
		if !c.specValid() {
			return false
		}
	}
	return true
}

type genP1 struct {
	c                                                    *P1Claims
	hasProfile, hasClientID, hasLC, hasImplID, hasBoot   bool
	hasCertRef, hasNoSw, hasNonce, hasInstID, hasVSI     bool
	profile, certRef, vsi                                string
	clientID                                             int32
	lc                                                   uint16
	implID, boot, nonce, instID                          []byte
	noSw                                                 uint
	sw                                                   *genSws
}

func genP1Claims(maxN, strMax int) *genP1 {
	g := &genP1{}
	g.profile = ndString(gn("profile"), 20)
	g.certRef = ndString(gn("certref"), 24)
	g.vsi = ndString(gn("vsi"), strMax)
	g.clientID = ndInt32(gn("clientid"))
	g.lc = ndUint16(gn("lifecycle"))
	g.implID = ndBytes(gn("implid"))
	g.boot = ndBytes(gn("bootseed"))
	g.nonce = ndBytes(gn("nonce"))
	g.instID = ndBytes(gn("instid"))
	g.noSw = ndUint(gn("nosw"))
	g.sw = genSwComponents(gn("sw"), maxN, strMax)
	c := &P1Claims{CanonicalProfile: "PSA_IOT_PROFILE_1"}
	c.Profile = ndOpt(gn("has.profile"), &g.profile)
	c.ClientID = ndOpt(gn("has.clientid"), &g.clientID)
	c.SecurityLifeCycle = ndOpt(gn("has.lifecycle"), &g.lc)
	c.ImplID = ndOpt(gn("has.implid"), &g.implID)
	c.BootSeed = ndOpt(gn("has.bootseed"), &g.boot)
	c.CertificationReference = ndOpt(gn("has.certref"), &g.certRef)
	c.NoSwMeasurements = ndOpt(gn("has.nosw"), &g.noSw)
	c.Nonce = ndOpt(gn("has.nonce"), &g.nonce)
	c.InstID = ndOpt(gn("has.instid"), &g.instID)
	c.VSI = ndOpt(gn("has.vsi"), &g.vsi)
	g.hasProfile = c.Profile != nil
	g.hasClientID = c.ClientID != nil
	g.hasLC = c.SecurityLifeCycle != nil
	g.hasImplID = c.ImplID != nil
	g.hasBoot = c.BootSeed != nil
	g.hasCertRef = c.CertificationReference != nil
	g.hasNoSw = c.NoSwMeasurements != nil
	g.hasNonce = c.Nonce != nil
	g.hasInstID = c.InstID != nil
	g.hasVSI = c.VSI != nil
	c.SwComponents = g.sw.iface()
	g.c = c
	return g
}

// ---------- oracles (literals from the property text only) ----------

func specLifecycleValid(v uint16) bool {
	return v&0x0f00 == 0 && v>>12 <= 6
}

func specDigits(s string, from, n int) bool {
	for i := from; i < from+n; i++ {
		if s[i] < '0' || s[i] > '9' {
			return false
		}
	}
	return true
}

func specEAN13(s string) bool { return len(s) == 13 && specDigits(s, 0, 13) }

func specEAN13p5(s string) bool {
	return len(s) == 19 && specDigits(s, 0, 13) && s[13] == '-' && specDigits(s, 14, 5)
}

func specInstID(b []byte) bool { return len(b) == 33 && b[0] == 0x01 }

// specP1 is the profile-1 rule set of property C01.
func (g *genP1) specValid() bool { return g.specValidExcept(false) }

// specValidExcept(true): every rule except the security-lifecycle one
func (g *genP1) specValidExcept(skipLC bool) bool {
	if g.hasProfile && g.profile != "PSA_IOT_PROFILE_1" {
		return false
	}
	if !g.hasClientID {
		return false
	}
	if !skipLC && (!g.hasLC || !specLifecycleValid(g.lc)) {
		return false
	}
	if !g.hasImplID || len(g.implID) != 32 {
		return false
	}
	if !g.hasBoot || len(g.boot) != 32 {
		return false
	}
	if g.hasCertRef && !specEAN13(g.certRef) && !specEAN13p5(g.certRef) {
		return false
	}
	if !g.hasNonce || !specHash(len(g.nonce)) {
		return false
	}
	if !g.hasInstID || !specInstID(g.instID) {
		return false
	}
	if g.hasVSI && g.vsi == "" {
		return false
	}
	// at least one well-formed component, or the no-measurements flag, never both
	if g.sw.count() > 0 {
		if g.hasNoSw || !g.sw.allValid() {
			return false
		}
	} else if !g.hasNoSw {
		return false
	}
	return true
}

type genP2 struct {
	c                                                  *P2Claims
	profKind                                           int // 0 nil, 1 zero value, 2 holds a URI
	profStr                                            string
	hasClientID, hasLC, hasImplID, hasBoot, hasCertRef bool
	hasNonce, hasInstID, hasVSI                        bool
	certRef, vsi                                       string
	clientID                                           int32
	lc                                                 uint16
	implID, boot, instID                               []byte
	nonces                                             [][]byte
	sw                                                 *genSws
}

func genP2Claims(maxN, strMax, maxNonce int) *genP2 {
	g := &genP2{}
	g.certRef = ndString(gn("certref"), 24)
	g.vsi = ndString(gn("vsi"), strMax)
	g.clientID = ndInt32(gn("clientid"))
	g.lc = ndUint16(gn("lifecycle"))
	g.implID = ndBytes(gn("implid"))
	g.boot = ndBytes(gn("bootseed"))
	g.instID = ndBytes(gn("instid"))
	g.sw = genSwComponents(gn("sw"), maxN, strMax)
	c := &P2Claims{CanonicalProfile: "http://arm.com/psa/2.0.0"}
	c.Profile, g.profKind, g.profStr = ndEatProfile(gn("profile"), 26)
	c.ClientID = ndOpt(gn("has.clientid"), &g.clientID)
	c.SecurityLifeCycle = ndOpt(gn("has.lifecycle"), &g.lc)
	c.ImplID = ndOpt(gn("has.implid"), &g.implID)
	c.BootSeed = ndOpt(gn("has.bootseed"), &g.boot)
	c.CertificationReference = ndOpt(gn("has.certref"), &g.certRef)
	c.VSI = ndOpt(gn("has.vsi"), &g.vsi)
	u := eat.UEID(g.instID)
	c.InstID = ndOpt(gn("has.instid"), &u)
	g.nonces, c.Nonce = genNonce(gn("nonce"), maxNonce)
	g.hasClientID = c.ClientID != nil
	g.hasLC = c.SecurityLifeCycle != nil
	g.hasImplID = c.ImplID != nil
	g.hasBoot = c.BootSeed != nil
	g.hasCertRef = c.CertificationReference != nil
	g.hasNonce = c.Nonce != nil
	g.hasInstID = c.InstID != nil
	g.hasVSI = c.VSI != nil
	c.SwComponents = g.sw.iface()
	g.c = c
	return g
}

func (g *genP2) specValid() bool {
	if g.profKind != 2 || g.profStr != "http://arm.com/psa/2.0.0" {
		return false
	}
	if !g.hasClientID {
		return false
	}
	if !g.hasLC || !specLifecycleValid(g.lc) {
		return false
	}
	if !g.hasImplID || len(g.implID) != 32 {
		return false
	}
	if g.hasBoot && (len(g.boot) < 8 || len(g.boot) > 32) {
		return false
	}
	if g.hasCertRef && !specEAN13p5(g.certRef) {
		return false
	}
	if !g.hasNonce || len(g.nonces) != 1 || !specHash(len(g.nonces[0])) {
		return false
	}
	if !g.hasInstID || !specInstID(g.instID) {
		return false
	}
	if g.hasVSI && g.vsi == "" {
		return false
	}
	if g.sw.count() == 0 || !g.sw.allValid() {
		return false
	}
	return true
}
