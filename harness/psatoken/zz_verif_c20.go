//go:build verif

package psatoken

// C20 (what evidence.go adds on top of go-cose's envelope grammar), C02 (tampering / key
// swap under the ideal-signature model), C03 (sign -> decode -> verify binds the validated
// claims), and the two remaining validating gates of C08.

import (
	"crypto/rand"

	cose "github.com/veraison/go-cose"
)

var _ = verifReg("C20", VerifC20)
var _ = verifReg("C20payload", VerifC20payload)
var _ = verifReg("C02", VerifC02)
var _ = verifReg("C03", VerifC03)
var _ = verifReg("C02bare", VerifC02bare)
var _ = verifReg("C08sign", VerifC08sign)
var _ = verifReg("C08cose", VerifC08cose)

// verifAttackerMessage: an arbitrary decoded envelope as go-cose can return it (signature
// non-empty; payload nil or bytes; algorithm absent or any value), possibly sharing the
// payload / signature buffers of an honest message m (nil = none).
func verifAttackerMessage(pfx string, m *cose.Sign1Message) *cose.Sign1Message {
	a := cose.NewSign1Message()
	// models that differ from the honest message in as little as possible replay natively
	ndPrefer(ndInt(pfx+".payload") == 1)
	ndPrefer(ndBool(pfx + ".samesig"))
	ndPrefer(ndInt(pfx+".alg") == 1)
	ndPrefer(!ndBool(pfx + ".unprotected.alg"))
	ndPrefer(ndBool(pfx + ".canonical.protected.bytes"))
	switch ndConcrete(verifChoice(pfx+".alg", 3)) {
	case 0: // no algorithm in the protected bucket
	case 1:
		a.Headers.Protected.SetAlgorithm(cose.AlgorithmES256)
	case 2:
		a.Headers.Protected.SetAlgorithm(cose.Algorithm(ndInt(pfx + ".algvalue")))
	}
	switch ndConcrete(verifChoice(pfx+".payload", 3)) {
	case 0:
		a.Payload = nil
	case 1:
		if m != nil {
			a.Payload = m.Payload
		} else {
			a.Payload = verifNoTag(ndBytes(pfx + ".payload.bytes"))
		}
	case 2:
		a.Payload = verifNoTag(ndBytes(pfx + ".payload.bytes"))
	}
	// the unprotected bucket may carry an algorithm as well (it must never be used)
	if ndBool(pfx + ".unprotected.alg") {
		a.Headers.Unprotected[cose.HeaderLabelAlgorithm] = cose.AlgorithmES256
	}
	// protected-header BYTES as received: the canonical serialisation of the decoded map, or
	// some other byte string that decodes to the same map
	pa, perr := a.Headers.Protected.Algorithm()
	if ndBool(pfx + ".canonical.protected.bytes") {
		a.Headers.RawProtected = verifCanonProt(perr == nil, int64(pa))
	} else {
		rp := ndBytes(pfx + ".rawprotected")
		ndAssume(len(rp) > 0 && !verifSameBytes(rp, verifCanonProt(perr == nil, int64(pa))))
		a.Headers.RawProtected = rp
	}
	if m != nil && ndBool(pfx+".samesig") {
		a.Signature = m.Signature
	} else {
		a.Signature = ndBytes(pfx + ".sig.bytes")
		ndAssume(len(a.Signature) > 0)
	}
	return a
}

func verifChoice(name string, n int) int {
	k := ndInt(name)
	ndAssume(k >= 0 && k < n)
	return k
}

// ---------- C20 ----------

func VerifC20() {
	verifInstallStubs()
	verifCoseReset()
	buf := ndBytes("cwt")
	envelopeOK := ndBool("envelope.ok") && len(buf) > 0 // an empty input is never an envelope
	claimsOK := ndBool("claims.ok")
	var g *genP1
	var msg *cose.Sign1Message
	if ndSymbolic() {
		if envelopeOK {
			msg = verifAttackerMessage("att", nil)
			verifCose.decoded = msg
			if len(msg.Payload) > 0 {
				if claimsOK {
					g = genP1Claims(0, 4)
				}
				verifScript(msg.Payload, g)
			}
		}
	} else {
		// natively the envelope grammar is go-cose's own; replay a representative of the class
		buf = verifNativeEnvelope(envelopeOK, claimsOK)
	}
	// "used": the same decode into an Evidence that already has claims attached (nothing of the
	// earlier state may make up for what the new envelope lacks)
	used := ndParam("used", 0) == 1
	var ev *Evidence
	var err error
	if used {
		ev = &Evidence{}
		if ev.SetClaims(c19valid("pre.", ".P").c) != nil {
			return
		}
		err = ev.UnmarshalCOSE(buf)
		if err != nil {
			ev = nil
		}
	} else {
		ev, err = DecodeEvidenceFromCOSE(buf)
	}
	if !ndSymbolic() {
		// further representatives of classes the property names, asserted under the id of the
		// symbolic obligation whose failure they are the observable consequence of
		good := verifNativeEnvelope(true, true)
		_, uerr := DecodeEvidenceFromCOSE(good[1:]) // the same message without its tag
		ndAssert("c20-whole-buffer-reaches-envelope-decoder", uerr != nil)
		nilp := verifNativeNilPayload()
		ue := &Evidence{}
		_ = ue.SetClaims(verifBuilderClaims())
		ndAssert("c20-nil-or-empty-payload-is-an-error", ue.UnmarshalCOSE(nilp) != nil)
		_, ferr := DecodeEvidenceFromCOSE(nilp)
		ndAssert("c20-nil-or-empty-payload-is-an-error", ferr != nil)
		ndAssert("c20-native-class", (err == nil) == (envelopeOK && claimsOK))
		ndCover("c20-accepts", err == nil)
		ndCover("c20-rejects-envelope", err != nil && !envelopeOK)
		ndCover("c20-rejects-payload", err != nil && envelopeOK)
		return
	}
	ndAssert("c20-error-returns-no-evidence", err == nil || ev == nil)
	ndAssert("c20-envelope-error-is-an-error", envelopeOK || err != nil)
	ndAssert("c20-whole-buffer-reaches-envelope-decoder", len(buf) == 0 || verifIsSameBuffer(verifCose.lastData, buf))
	if envelopeOK {
		ndAssert("c20-nil-or-empty-payload-is-an-error", len(msg.Payload) > 0 || err != nil)
		ndAssert("c20-undecodable-payload-is-an-error", g != nil || err != nil)
		if len(msg.Payload) > 0 {
			// (a payload rejected before it reaches the codec, e.g. the encoding of null, is an error)
			ndAssert("c20-claims-decoded-from-message-payload", (len(verifStub.bufs) == 0 && err != nil) || (len(verifStub.bufs) > 0 && verifIsSameBuffer(verifStub.bufs[0], msg.Payload)))
		}
		if g != nil && len(buf) > 0 {
			ndAssert("c20-accepts-wellformed", err == nil && ev != nil && ev.Claims != nil && obsSame(obsOf(ev.Claims), obsOf(g.c), -1))
		}
	}
	ndCover("c20-accepts", err == nil)
	ndCover("c20-rejects-envelope", err != nil && !envelopeOK)
	ndCover("c20-rejects-payload", err != nil && envelopeOK)
}

// verifNativeEnvelope: a real byte string of the requested class
func verifNativeEnvelope(envelopeOK, claimsOK bool) []byte {
	w := verifNewWorld(1)
	m := cose.NewSign1Message()
	m.Headers.Protected.SetAlgorithm(cose.AlgorithmES256)
	if claimsOK {
		m.Payload = verifRealCBOR(verifBuilderClaims())
	} else {
		m.Payload = []byte{0x01}
	}
	if err := m.Sign(rand.Reader, []byte(""), w.signer(0, 0)); err != nil {
		panic(verifAbort{"native envelope: " + err.Error()})
	}
	out, err := m.MarshalCBOR()
	if err != nil {
		panic(verifAbort{"native envelope: " + err.Error()})
	}
	if !envelopeOK {
		out[0] = 0xd1 // COSE_Mac0 tag instead of COSE_Sign1
	}
	return out
}

// verifNativeNilPayload: a tagged COSE_Sign1 whose payload is null (signature bytes arbitrary:
// decoding must already refuse it)
func verifNativeNilPayload() []byte {
	return []byte{0xd2, 0x84, 0x43, 0xa1, 0x01, 0x26, 0xa0, 0xf6, 0x44, 0xde, 0xad, 0xbe, 0xef}
}

// verifBuilderClaims: one concrete valid profile-1 claims-set (native helper)
func verifBuilderClaims() IClaims {
	c, _ := NewClaims("PSA_IOT_PROFILE_1")
	b32 := make([]byte, 32)
	id := make([]byte, 33)
	id[0] = 1
	ok := c.SetClientID(1) == nil && c.SetSecurityLifeCycle(0x3000) == nil && c.SetImplID(b32) == nil && c.SetBootSeed(b32) == nil &&
		c.SetNonce(b32) == nil && c.SetInstID(id) == nil && c.SetSoftwareComponents(nil) == nil
	if !ok {
		panic(verifAbort{"builder claims"})
	}
	return c
}

// ---------- C02 ----------

func VerifC02() {
	verifInstallStubs()
	w := verifNewWorld(2)
	g := c19valid("x.", ".X")
	alg := c02alg()
	e := &Evidence{}
	if e.SetClaims(g.c) != nil {
		return
	}
	tok, err := e.ValidateAndSign(w.signerAlg(0, alg, 0))
	if err != nil {
		return // encoder fault; C03 covers the success clause
	}
	honest := *e.message
	// (1) the honest token under a different key
	ndAssert("c02-other-key-never-verifies", e.Verify(w.pubAlg(1, alg)) != nil)
	if !ndSymbolic() {
		// natively: rebuild the model's attacker envelope from the REAL token and run it
		// through the real go-cose and the real signature check
		abuf, differs, ok := c02nativeAttack(tok)
		key := verifChoice("vkey", 2)
		if ok {
			ev, derr := DecodeEvidenceFromCOSE(abuf)
			if derr == nil {
				verr := ev.Verify(w.pubAlg(key, alg))
				ndAssert("c02-modified-token-never-verifies", !(differs || key != 0) || verr != nil)
			}
		}
		ndCover("c02-honest-verifies", e.Verify(w.pubAlg(0, alg)) == nil)
		return
	}
	// (2) an arbitrary attacker-made envelope (may reuse the honest payload / signature buffers)
	att := verifAttackerMessage("att", &honest)
	verifCose.decoded = att
	if len(att.Payload) > 0 && !verifIsSameBuffer(att.Payload, honest.Payload) {
		verifGenPfx = "t."
		verifScript(att.Payload, genP1Claims(0, 4))
		verifGenPfx = ""
	} else if len(att.Payload) > 0 {
		verifScript(att.Payload, g)
	}
	abuf := ndBytes("attacker.bytes")
	ndAssume(len(abuf) > 0)
	ev, derr := DecodeEvidenceFromCOSE(abuf)
	key := ndConcrete(verifChoice("vkey", 2))
	differs := !c02sameMessage(att, &honest)
	if derr == nil {
		verr := ev.Verify(w.pubAlg(key, alg))
		ndAssert("c02-modified-token-never-verifies", !(differs || key != 0) || verr != nil)
		ndCoverSym("c02-identical-message-verifies", !differs && key == 0 && verr == nil)
	}
	okRight := e.Verify(w.pubAlg(0, alg)) == nil
	ndCover("c02-honest-verifies", okRight)
	// a different key is refused also AFTER the right one has been accepted on the same Evidence
	// (a caller looping over candidate trust anchors)
	ndAssert("c02-other-key-never-verifies-after-the-right-one", e.Verify(w.pubAlg(1, alg)) != nil)
}

// no algorithm in the protected header / no payload / no signature: never verifies, whatever
// else the message holds and whatever the key
func VerifC02bare() {
	verifInstallStubs()
	w := verifNewWorld(2)
	alg := c02alg()
	// an honest signature exists in the world, so "never verifies" is not vacuous
	g := c19valid("x.", ".X")
	e := &Evidence{Claims: g.c}
	if _, err := e.Sign(w.signerAlg(0, alg, 0)); err != nil {
		return
	}
	honest := *e.message
	bare := &Evidence{message: verifAttackerMessage("bare", &honest)}
	switch ndConcrete(verifChoice("strip", 3)) {
	case 0:
		delete(bare.message.Headers.Protected, cose.HeaderLabelAlgorithm)
		if ndBool("oracle.signature.over.empty.protected.header") {
			// the signer's key has also signed (outside this library) a Sig_structure with an
			// EMPTY protected header over this payload: that signature must still not make a
			// message without a protected algorithm verify
			bare.message.Headers.RawProtected = []byte{}
			if ndSymbolic() {
				sig := ndBytes("oracle.sig")
				ndAssume(len(sig) > 0)
				idx := len(verifCose.tbs)
				verifCose.tbs = append(verifCose.tbs, verifTBSRec{hasAlg: false, rawProt: []byte{}, ext: []byte(""), payload: bare.message.Payload})
				verifCose.sigs = append(verifCose.sigs, verifSigRec{key: 0, alg: alg, tbs: idx, sig: sig})
				bare.message.Signature = sig
			} else {
				// natively: really sign ["Signature1", h'', h'', payload] with the signer's key
				if bare.message.Payload == nil {
					bare.message.Payload = []byte{0xa0}
				}
				tbs := []byte{0x84, 0x6a}
				tbs = append(tbs, "Signature1"...)
				tbs = append(tbs, 0x40, 0x40)
				tbs = append(tbs, verifCBORBstr(bare.message.Payload)...)
				sig, err := w.signerAlg(0, alg, 0).Sign(rand.Reader, tbs)
				if err != nil {
					panic(verifAbort{"oracle signature"})
				}
				bare.message.Signature = sig
				bare.message.Headers.RawProtected = []byte{0x40}
				bare.message.Headers.Unprotected[cose.HeaderLabelAlgorithm] = alg
			}
		}
	case 1:
		bare.message.Payload = nil
	case 2:
		bare.message.Signature = nil
	}
	key := ndConcrete(verifChoice("vkey", 2))
	ndAssert("c02-incomplete-message-never-verifies", bare.Verify(w.pubAlg(key, alg)) != nil)
	none := &Evidence{}
	ndAssert("c02-no-message-never-verifies", none.Verify(w.pubAlg(key, alg)) != nil)
	ndCover("c02-bare-ran", true)
}

// c02alg: the algorithm family under test (parameter "alg": index into verifAlgs)
func c02alg() cose.Algorithm { return verifAlgs[ndParam("alg", 0)] }

func c02prot(m *cose.Sign1Message) []byte {
	if m.Headers.RawProtected != nil {
		return m.Headers.RawProtected
	}
	a, err := m.Headers.Protected.Algorithm()
	return verifCanonProt(err == nil, int64(a))
}

// same protected-header bytes, payload bytes and signature bytes
func c02sameMessage(a, b *cose.Sign1Message) bool {
	aa, e1 := a.Headers.Protected.Algorithm()
	ba, e2 := b.Headers.Protected.Algorithm()
	return (e1 == nil) == (e2 == nil) && (e1 != nil || aa == ba) && verifSameBytes(c02prot(a), c02prot(b)) &&
		(a.Payload == nil) == (b.Payload == nil) && verifSameBytes(a.Payload, b.Payload) && verifSameBytes(a.Signature, b.Signature)
}

// ---------- C03 ----------

func VerifC03() {
	verifInstallStubs()
	w := verifNewWorld(2)
	g := c19valid("x.", ".X")
	alg := verifPickAlg("alg")
	validate := ndBool("use.validate-and-sign")
	e := &Evidence{}
	if e.SetClaims(g.c) != nil {
		ndAssert("c03-valid-claims-attach", false)
		return
	}
	signer := w.signerAlg(0, alg, 0)
	var tok []byte
	var err error
	if validate {
		tok, err = e.ValidateAndSign(signer)
	} else {
		tok, err = e.Sign(signer)
	}
	ndAssert("c03-sign-succeeds", err == nil || !c19encodable(".X"))
	if err != nil {
		return
	}
	want, _ := ValidateAndEncodeClaimsToCBOR(g.c)
	ndAssert("c03-payload-is-the-validated-encoding", verifSameBytes(e.message.Payload, want))
	a, aerr := e.message.Headers.Protected.Algorithm()
	ndAssert("c03-protected-header-carries-signer-algorithm", aerr == nil && a == alg)
	ndAssert("c03-signing-evidence-verifies", e.Verify(w.pubAlg(0, alg)) == nil)
	ndAssert("c03-wrong-key-fails", e.Verify(w.pubAlg(1, alg)) != nil)
	if ndSymbolic() {
		n := len(verifCose.toks)
		ndAssert("c03-token-is-the-marshalled-message", n > 0 && verifIsSameBuffer(tok, verifCose.toks[n-1].bytes) && c02sameMessage(&verifCose.toks[n-1].msg, e.message))
		nt := len(verifCose.tbs)
		ndAssert("c03-empty-external-data-on-both-sides", nt >= 2 && len(verifCose.tbs[nt-1].ext) == 0 && len(verifCose.tbs[nt-2].ext) == 0)
		verifScript(e.message.Payload, g)
	}
	ev, derr := DecodeAndValidateEvidenceFromCOSE(tok)
	ndAssert("c03-own-token-decodes-and-validates", derr == nil && ev != nil)
	if derr != nil {
		return
	}
	ndAssert("c03-decoded-claims-equal-originals", obsSame(obsOf(ev.Claims), obsOf(g.c), -1))
	ndAssert("c03-decoded-evidence-verifies", ev.Verify(w.pubAlg(0, alg)) == nil)
	ndAssert("c03-decoded-payload-is-signed-payload", verifSameBytes(ev.message.Payload, e.message.Payload))
	// decoding into an Evidence that already holds OTHER claims exposes exactly the decoded ones
	other := c19valid("y.", ".Y")
	e2 := &Evidence{Claims: other.c}
	if e2.UnmarshalCOSE(tok) == nil {
		ndAssert("c03-decode-replaces-attached-claims", obsSame(obsOf(e2.Claims), obsOf(g.c), -1))
	} else {
		ndAssert("c03-own-token-decodes-into-used-evidence", false)
	}
	ndCover("c03-roundtrip", true)
	ndCover("c03-eddsa", alg == cose.AlgorithmEdDSA)
}

// ---------- remaining C08 gates ----------

func VerifC08sign() {
	verifInstallStubs()
	w := verifNewWorld(1)
	c, _, _ := verifGenClaims()
	valid := verifValid(c)
	fault := ndConcrete(verifChoice("fault", 3))
	e1 := &Evidence{Claims: c}
	e2 := &Evidence{Claims: c}
	if ndBool("attach.valid.then.mutate") {
		// the claims object was valid when it was attached through SetClaims and is changed
		// afterwards through the pointer the caller still holds
		e1 = c08attachThenMutate(c)
	}
	t1, err1 := e1.ValidateAndSign(w.signer(0, fault))
	t2, err2 := e2.Sign(w.signer(0, fault))
	ndAssert("c08-sign-gate-fails-iff-invalid-or-sibling-fails", (err1 != nil) == (!valid || err2 != nil))
	ndAssert("c08-sign-invalid-emits-no-token", valid || len(t1) == 0)
	if err1 == nil && err2 == nil {
		ndAssert("c08-sign-valid-equals-sibling", len(t2) > 0 && verifSameBytes(e1.message.Payload, e2.message.Payload))
	}
	ndCover("c08-sign-valid", err1 == nil)
	ndCover("c08-sign-invalid-rejected", !valid && err1 != nil && err2 == nil)
}

func VerifC08cose() {
	verifInstallStubs()
	w := verifNewWorld(1)
	c, g1, g2 := verifGenClaims()
	// a token carrying this (valid or invalid) claims-set, signed without validation
	e := &Evidence{Claims: c}
	verifSetLabel(c, ".C")
	tok, err := e.Sign(w.signer(0, 0))
	if err != nil {
		return
	}
	verifStub.p1, verifStub.p2 = g1, g2
	if g2 != nil {
		verifStub.selProf = g2.profStr
	}
	ev1, err1 := DecodeAndValidateEvidenceFromCOSE(tok)
	ev2, err2 := DecodeEvidenceFromCOSE(tok)
	valid2 := err2 == nil && verifValid(ev2.Claims)
	ndAssert("c08-cose-gate-fails-iff-invalid-or-sibling-fails", (err1 != nil) == (err2 != nil || !valid2))
	ndAssert("c08-cose-failure-returns-no-evidence", err1 == nil || ev1 == nil)
	if err1 == nil && err2 == nil {
		ndAssert("c08-cose-valid-equals-sibling", obsSame(obsOf(ev1.Claims), obsOf(ev2.Claims), -1))
	}
	ndCover("c08-cose-accepts", err1 == nil)
	ndCover("c08-cose-rejects-invalid", err1 != nil && err2 == nil && c08onlyLifecycleWrong(ev2.Claims))
}

// c08attachThenMutate: attach a VALID claims object with SetClaims, then overwrite that same
// object in place with the (arbitrary) content of c.
func c08attachThenMutate(c IClaims) *Evidence {
	e := &Evidence{}
	switch src := c.(type) {
	case *P1Claims:
		verifGenPfx = "v."
		v := genP1Claims(0, 4)
		verifGenPfx = ""
		ndAssume(v.specValid())
		if e.SetClaims(v.c) != nil {
			panic(verifAbort{"valid claims rejected"})
		}
		*v.c = *src
		verifSetLabel(v.c, verifLabelOf(c))
	case *P2Claims:
		verifGenPfx = "v."
		v := genP2Claims(1, 4, 1)
		verifGenPfx = ""
		ndAssume(v.specValid())
		if e.SetClaims(v.c) != nil {
			panic(verifAbort{"valid claims rejected"})
		}
		*v.c = *src
		verifSetLabel(v.c, verifLabelOf(c))
	}
	return e
}

// c02nativeAttack rebuilds, from the real honest token, the envelope the model describes
// (same nd variables as verifAttackerMessage): algorithm dropped / kept / replaced, payload
// nil / kept / replaced, signature kept / replaced, protected-header bytes canonical or a
// different serialisation of the same map, algorithm also in the unprotected bucket.
func c02nativeAttack(tok []byte) (out []byte, differs bool, ok bool) {
	m := cose.NewSign1Message()
	if err := m.UnmarshalCBOR(tok); err != nil {
		return nil, false, false
	}
	honestAlg, _ := m.Headers.Protected.Algorithm()
	algBytes := verifCBORInt(int64(honestAlg))
	switch verifChoice("att.alg", 3) {
	case 0:
		delete(m.Headers.Protected, cose.HeaderLabelAlgorithm)
		m.Headers.RawProtected = []byte{0x40}
		differs = true
	case 1:
	case 2:
		v := int64(ndInt("att.algvalue"))
		if v != int64(honestAlg) {
			differs = true
		}
		m.Headers.Protected.SetAlgorithm(cose.Algorithm(v))
		algBytes = verifCBORInt(v)
		m.Headers.RawProtected = verifCBORBstr(append([]byte{0xa1, 0x01}, algBytes...))
	}
	switch verifChoice("att.payload", 3) {
	case 0:
		m.Payload = nil
		differs = true
	case 1:
	case 2:
		p := verifNoTag(ndBytes("att.payload.bytes"))
		if string(p) != string(m.Payload) {
			differs = true
		}
		m.Payload = p
	}
	if ndBool("att.unprotected.alg") {
		m.Headers.Unprotected[cose.HeaderLabelAlgorithm] = cose.AlgorithmES256
	}
	if !ndBool("att.canonical.protected.bytes") {
		if _, err := m.Headers.Protected.Algorithm(); err == nil {
			// the same one-entry map with a non-minimal key encoding (0x18 0x01 instead of 0x01)
			m.Headers.RawProtected = verifCBORBstr(append([]byte{0xa1, 0x18, 0x01}, algBytes...))
			differs = true
		}
	}
	if !ndBool("att.samesig") {
		sg := ndBytes("att.sig.bytes")
		if string(sg) != string(m.Signature) {
			differs = true
		}
		if len(sg) == 0 {
			return nil, false, false
		}
		m.Signature = sg
	}
	b, err := m.MarshalCBOR()
	if err != nil {
		return nil, false, false
	}
	return b, differs, true
}

func verifCBORInt(v int64) []byte {
	major := byte(0)
	u := uint64(v)
	if v < 0 {
		major = 0x20
		u = uint64(-1 - v)
	}
	switch {
	case u < 24:
		return []byte{major | byte(u)}
	case u < 1<<8:
		return []byte{major | 24, byte(u)}
	case u < 1<<16:
		return []byte{major | 25, byte(u >> 8), byte(u)}
	case u < 1<<32:
		return []byte{major | 26, byte(u >> 24), byte(u >> 16), byte(u >> 8), byte(u)}
	}
	return []byte{major | 27, byte(u >> 56), byte(u >> 48), byte(u >> 40), byte(u >> 32), byte(u >> 24), byte(u >> 16), byte(u >> 8), byte(u)}
}

// C20 "whose payload is itself a decodable claims map ... nil or non-map payloads are
// rejected": the claims decoder on the encoding of ANY single item that is not a map (L3).
// (Maps are C04's subject; tagged items carry no verdict.)
func VerifC20payload() {
	l3install()
	it := c04arbitrary("payload")
	if it.kind == ikMap {
		return
	}
	if it.kind == ikTag {
		// a tagged non-map item is no claims map either: tagged null (which the codec would
		// decode as a no-op) or a tagged integer; tag numbers the library validates are left out
		ndAssume(it.u >= 6 && it.u != 55799)
		if ndBool("payload.tagged.null") {
			it.inner = &vItem{kind: ikNull}
		}
	}
	buf := verifEncodeItem(it)
	c, err := DecodeClaimsFromCBOR(buf)
	ndAssert("c20-non-map-payload-is-not-a-claims-set", err != nil && c == nil)
	ndCover("c20-payload-uint-rejected", err != nil && it.kind == ikUint)
	ndCover("c20-payload-array-rejected", err != nil && it.kind == ikArray)
	ndCover("c20-payload-tagged-null-rejected", err != nil && it.kind == ikTag && it.inner.kind == ikNull)
}
