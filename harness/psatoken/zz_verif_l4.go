//go:build verif

package psatoken

// L4: encoding/json as a TYPE-DIRECTED CONTRACT over abstract JSON values (symbolic mode).
// Same shape as L3 (zz_verif_l3.go): a JSON buffer is a handle to a value tree (jItem); the
// struct walk uses reflection over the CURRENT `json` struct tags (member name, omitempty,
// "-"); leaves follow encoding/json's documented behaviour:
//   encode: nil pointer / nil interface: omitted under omitempty, else null; intN -> number;
//           []byte (and named byte-slice types) -> base64 string; string -> string; slice ->
//           array; Marshaler -> its own method (the repo's methods are executed for real;
//           eat.Nonce / eat.Profile by their contract).
//   decode: absent member leaves the field untouched; null sets a pointer to nil; numbers
//           into intN only if integral and in range; []byte from a base64 string; struct from
//           object (unknown members ignored; member names matched EXACTLY: encoding/json's
//           case-insensitive fallback is excluded by assumption); first error aborts.
// Outside: HTML escaping, invalid-UTF-8 replacement, number syntax corner cases, duplicate
// members. Natively the real encoding/json runs and an independent minimal JSON reader
// (end of this file) parses its output.

import (
	"encoding/json"
	"reflect"
	"strings"

	"github.com/veraison/eat"
)

const (
	jkObj = iota
	jkStr
	jkB64 // a string that is the base64 encoding of b
	jkNum // an integer number
	jkBool
	jkNull
	jkArr
	jkOther // non-integer number or anything the model does not distinguish
)

type jItem struct {
	kind  int
	s     string
	b     []byte
	n     int64
	neg   bool // numbers are kept as (magnitude, sign) pairs only when needed; n is the value
	elems []*jItem
	names []string
	has   []bool
}

func (it *jItem) put(name string, v *jItem, present bool) {
	it.names = append(it.names, name)
	it.elems = append(it.elems, v)
	it.has = append(it.has, present)
}

func (it *jItem) get(name string) (*jItem, bool) {
	if it == nil || it.kind != jkObj {
		return nil, false
	}
	// duplicate members: the last one wins in encoding/json; the model never builds duplicates
	for i, k := range it.names {
		if k == name && it.has[i] {
			return it.elems[i], true
		}
	}
	return nil, false
}

type l4buf struct {
	buf  []byte
	item *jItem
}

type l4state struct {
	bufs   []l4buf
	n      int
	err    bool
	active bool
}

var verifL4 l4state

func l4install() {
	verifL4 = l4state{active: true}
	verifStub = verifStubState{installed: true}
}

func l4handle(item *jItem) []byte {
	for _, b := range verifL4.bufs {
		if b.item == item {
			return b.buf
		}
	}
	buf := ndBytes(ndName("json.buf", verifL4.n))
	verifL4.n++
	ndAssume(len(buf) > 0)
	verifL4.bufs = append(verifL4.bufs, l4buf{buf, item})
	return buf
}

func l4lookup(buf []byte) *jItem {
	for _, b := range verifL4.bufs {
		if len(buf) > 0 && len(buf) == len(b.buf) && &buf[0] == &b.buf[0] {
			return b.item
		}
	}
	return nil
}

// l4parseTag: (member name, omitempty, skip)
func l4parseTag(tag string) (string, bool, bool) {
	parts := strings.Split(tag, ",")
	if parts[0] == "-" {
		return "", false, true
	}
	omit := false
	for _, p := range parts[1:] {
		if p == "omitempty" {
			omit = true
		}
	}
	return parts[0], omit, false
}

// ---------- encoder model ----------

func l4marshal(v interface{}) ([]byte, error) {
	if m, ok := v.(json.Marshaler); ok {
		return m.MarshalJSON()
	}
	it, err := l4encode(reflect.ValueOf(v))
	if err != nil {
		return nil, err
	}
	return l4handle(it), nil
}

func l4encodeLeaf(x interface{}) (*jItem, bool, error) {
	null := &jItem{kind: jkNull}
	if x == nil {
		return null, true, nil
	}
	switch p := x.(type) {
	case *string:
		if p == nil {
			return null, true, nil
		}
		return &jItem{kind: jkStr, s: *p}, false, nil
	case *int32:
		if p == nil {
			return null, true, nil
		}
		return &jItem{kind: jkNum, n: int64(*p)}, false, nil
	case *int64:
		if p == nil {
			return null, true, nil
		}
		return &jItem{kind: jkNum, n: *p}, false, nil
	case *uint16:
		if p == nil {
			return null, true, nil
		}
		return &jItem{kind: jkNum, n: int64(*p)}, false, nil
	case *uint:
		if p == nil {
			return null, true, nil
		}
		if *p > 1<<62 {
			verifL4.err = true // beyond the model's int64 numbers
			return nil, false, errL3
		}
		return &jItem{kind: jkNum, n: int64(*p)}, false, nil
	case *[]byte:
		if p == nil {
			return null, true, nil
		}
		return &jItem{kind: jkB64, b: *p}, false, nil
	case *eat.UEID:
		if p == nil {
			return null, true, nil
		}
		return &jItem{kind: jkB64, b: []byte(*p)}, false, nil
	case *eat.Nonce:
		if p == nil {
			return null, true, nil
		}
		n := p.Len()
		if n == 0 {
			return nil, false, errL3
		}
		var es []*jItem
		for i := 0; i < n; i++ {
			b := p.GetI(i)
			if len(b) < 8 || len(b) > 64 {
				return nil, false, errL3
			}
			es = append(es, &jItem{kind: jkB64, b: b})
		}
		if n == 1 {
			return es[0], false, nil
		}
		return &jItem{kind: jkArr, elems: es}, false, nil
	case *eat.Profile:
		if p == nil {
			return null, true, nil
		}
		s, err := p.Get()
		if err != nil {
			return nil, false, errL3
		}
		return &jItem{kind: jkStr, s: s}, false, nil
	case ISwComponents:
		if p == nil {
			return null, true, nil
		}
		m, ok := p.(json.Marshaler)
		if !ok {
			verifL4.err = true
			return nil, false, errL3
		}
		buf, err := m.MarshalJSON()
		if err != nil {
			return nil, false, err
		}
		it := l4lookup(buf)
		if it == nil {
			verifL4.err = true
			return nil, false, errL3
		}
		return it, false, nil
	}
	verifL4.err = true
	return nil, false, errL3
}

func l4encode(rv reflect.Value) (*jItem, error) {
	switch x := rv.Interface().(type) {
	case []*SwComponent:
		if x == nil {
			return &jItem{kind: jkNull}, nil // a nil slice is encoded as null
		}
		it := &jItem{kind: jkArr}
		for _, sc := range x {
			if sc == nil {
				it.elems = append(it.elems, &jItem{kind: jkNull})
				continue
			}
			e, err := l4encodeStruct(reflect.ValueOf(sc).Elem())
			if err != nil {
				return nil, err
			}
			it.elems = append(it.elems, e)
		}
		return it, nil
	}
	if rv.Kind() == reflect.Pointer {
		if rv.IsNil() {
			return &jItem{kind: jkNull}, nil
		}
		rv = rv.Elem()
	}
	if rv.Kind() == reflect.Struct {
		return l4encodeStruct(rv)
	}
	verifL4.err = true
	return nil, errL3
}

func l4encodeStruct(rv reflect.Value) (*jItem, error) {
	it := &jItem{kind: jkObj}
	rt := rv.Type()
	for i := 0; i < rv.NumField(); i++ {
		tag, ok := rt.Field(i).Tag.Lookup("json")
		if !ok {
			verifL4.err = true
			return nil, errL3
		}
		name, omit, skip := l4parseTag(tag)
		if skip {
			continue
		}
		child, empty, err := l4encodeLeaf(rv.Field(i).Interface())
		if err != nil {
			return nil, err
		}
		it.put(name, child, !(empty && omit))
	}
	return it, nil
}

// ---------- decoder model ----------

func l4unmarshal(data []byte, v interface{}) error {
	if u, ok := v.(json.Unmarshaler); ok {
		return u.UnmarshalJSON(data)
	}
	it := l4lookup(data)
	if it == nil {
		return errL3
	}
	switch p := v.(type) {
	case *map[string]interface{}:
		return l4decodeMap(it, p)
	case *[]*SwComponent:
		return l4decodeComponents(it, p)
	}
	rv := reflect.ValueOf(v).Elem()
	if rv.Kind() == reflect.Struct {
		return l4decodeStruct(it, rv)
	}
	verifL4.err = true
	return errL3
}

// l4decodeMap: what json.Unmarshal stores into a map[string]interface{} (only the kinds that
// the dispatcher looks at are distinguished)
func l4decodeMap(it *jItem, p *map[string]interface{}) error {
	if it.kind != jkObj {
		return errL3
	}
	m := map[string]interface{}{}
	for i, name := range it.names {
		if !it.has[i] {
			continue
		}
		switch e := it.elems[i]; e.kind {
		case jkStr:
			m[name] = e.s
		case jkNull:
			m[name] = nil
		case jkNum:
			m[name] = float64(0) // the value is irrelevant to the dispatcher
		case jkBool:
			m[name] = true
		default:
			m[name] = []interface{}{} // arrays, objects, base64 strings: "something that is not a profile name"
		}
	}
	*p = m
	return nil
}

func l4decodeComponents(it *jItem, p *[]*SwComponent) error {
	if it.kind == jkNull {
		*p = nil
		return nil
	}
	if it.kind != jkArr {
		return errL3
	}
	out := make([]*SwComponent, 0, len(it.elems))
	for _, e := range it.elems {
		if e.kind == jkNull {
			out = append(out, nil)
			continue
		}
		sc := &SwComponent{}
		if err := l4decodeStruct(e, reflect.ValueOf(sc).Elem()); err != nil {
			return err
		}
		out = append(out, sc)
	}
	*p = out
	return nil
}

func l4decodeStruct(it *jItem, rv reflect.Value) error {
	if it.kind == jkNull {
		return nil
	}
	if it.kind != jkObj {
		return errL3
	}
	rt := rv.Type()
	for i := 0; i < rv.NumField(); i++ {
		tag, ok := rt.Field(i).Tag.Lookup("json")
		if !ok {
			continue
		}
		name, _, skip := l4parseTag(tag)
		if skip {
			continue
		}
		child, present := it.get(name)
		if !present {
			continue
		}
		if err := l4decodeLeaf(child, rv.Field(i).Addr().Interface()); err != nil {
			return err
		}
	}
	return nil
}

func l4num(it *jItem, lo, hi int64) (int64, bool) {
	if it.kind != jkNum || it.n < lo || it.n > hi {
		return 0, false
	}
	return it.n, true
}

func l4decodeLeaf(it *jItem, fp interface{}) error {
	null := it.kind == jkNull
	switch p := fp.(type) {
	case **string:
		if null {
			*p = nil
			return nil
		}
		if it.kind != jkStr {
			return errL3
		}
		s := it.s
		*p = &s
	case **int32:
		if null {
			*p = nil
			return nil
		}
		v, ok := l4num(it, -1<<31, 1<<31-1)
		if !ok {
			return errL3
		}
		x := int32(v)
		*p = &x
	case **int64:
		if null {
			*p = nil
			return nil
		}
		v, ok := l4num(it, -1<<63, 1<<63-1)
		if !ok {
			return errL3
		}
		*p = &v
	case **uint16:
		if null {
			*p = nil
			return nil
		}
		v, ok := l4num(it, 0, 0xffff)
		if !ok {
			return errL3
		}
		x := uint16(v)
		*p = &x
	case **uint:
		if null {
			*p = nil
			return nil
		}
		v, ok := l4num(it, 0, 1<<62)
		if !ok {
			return errL3
		}
		x := uint(v)
		*p = &x
	case **[]byte:
		if null {
			*p = nil
			return nil
		}
		if it.kind != jkB64 {
			return errL3 // (a plain string that happens to be valid base64 is outside the model)
		}
		b := ndCopyBytes(it.b)
		*p = &b
	case **eat.UEID:
		if null {
			*p = nil
			return nil
		}
		if it.kind != jkB64 {
			return errL3
		}
		u := eat.UEID(ndCopyBytes(it.b))
		*p = &u
	case **eat.Nonce:
		if null {
			*p = nil
			return nil
		}
		n := ndNonceEmpty()
		switch it.kind {
		case jkB64:
			n = ndNonceAppend(n, ndCopyBytes(it.b))
		case jkArr:
			for _, e := range it.elems {
				if e.kind != jkB64 {
					return errL3
				}
				n = ndNonceAppend(n, ndCopyBytes(e.b))
			}
		default:
			return errL3
		}
		*p = n
	case **eat.Profile:
		if null {
			*p = nil
			return nil
		}
		if it.kind != jkStr {
			return errL3
		}
		prof := ndProfileOf(it.s)
		if prof == nil {
			return errL3
		}
		*p = prof
	case *ISwComponents:
		if *p == nil {
			verifL4.err = true
			return errL3
		}
		u, ok := (*p).(json.Unmarshaler)
		if !ok {
			verifL4.err = true
			return errL3
		}
		return u.UnmarshalJSON(l4handle(it))
	default:
		verifL4.err = true
		return errL3
	}
	return nil
}

// ---------- native side: independent minimal JSON reader ----------

type jreader struct {
	b   []byte
	pos int
	ok  bool
}

func (r *jreader) ws() {
	for r.pos < len(r.b) && (r.b[r.pos] == ' ' || r.b[r.pos] == '\n' || r.b[r.pos] == '\t' || r.b[r.pos] == '\r') {
		r.pos++
	}
}

func (r *jreader) str() string {
	// opening quote already checked
	r.pos++
	var out []byte
	for r.pos < len(r.b) {
		c := r.b[r.pos]
		switch {
		case c == '"':
			r.pos++
			return string(out)
		case c == '\\' && r.pos+1 < len(r.b):
			r.pos++
			switch e := r.b[r.pos]; e {
			case 'n':
				out = append(out, '\n')
			case 't':
				out = append(out, '\t')
			case 'r':
				out = append(out, '\r')
			case 'b':
				out = append(out, '\b')
			case 'f':
				out = append(out, '\f')
			case 'u':
				if r.pos+4 >= len(r.b) {
					r.ok = false
					return ""
				}
				v := 0
				for i := 1; i <= 4; i++ {
					h := r.b[r.pos+i]
					switch {
					case h >= '0' && h <= '9':
						v = v*16 + int(h-'0')
					case h >= 'a' && h <= 'f':
						v = v*16 + int(h-'a') + 10
					case h >= 'A' && h <= 'F':
						v = v*16 + int(h-'A') + 10
					default:
						r.ok = false
						return ""
					}
				}
				r.pos += 4
				out = append(out, string(rune(v))...)
			default:
				out = append(out, e)
			}
			r.pos++
		default:
			out = append(out, c)
			r.pos++
		}
	}
	r.ok = false
	return ""
}

func verifUnbase64(s string) ([]byte, bool) {
	const abc = "ABCDEFGHIJKLMNOPQRSTUVWXYZabcdefghijklmnopqrstuvwxyz0123456789+/"
	if len(s)%4 != 0 {
		return nil, false
	}
	var out []byte
	for i := 0; i < len(s); i += 4 {
		var v [4]int
		pad := 0
		for j := 0; j < 4; j++ {
			c := s[i+j]
			if c == '=' {
				v[j] = 0
				pad++
				continue
			}
			k := strings.IndexByte(abc, c)
			if k < 0 || pad > 0 {
				return nil, false
			}
			v[j] = k
		}
		if pad > 2 || (pad > 0 && i+4 != len(s)) {
			return nil, false
		}
		n := v[0]<<18 | v[1]<<12 | v[2]<<6 | v[3]
		out = append(out, byte(n>>16))
		if pad < 2 {
			out = append(out, byte(n>>8))
		}
		if pad < 1 {
			out = append(out, byte(n))
		}
	}
	return out, true
}

func (r *jreader) value() *jItem {
	r.ws()
	if r.pos >= len(r.b) {
		r.ok = false
		return nil
	}
	switch c := r.b[r.pos]; {
	case c == '{':
		r.pos++
		it := &jItem{kind: jkObj}
		r.ws()
		if r.pos < len(r.b) && r.b[r.pos] == '}' {
			r.pos++
			return it
		}
		for r.ok {
			r.ws()
			if r.pos >= len(r.b) || r.b[r.pos] != '"' {
				r.ok = false
				return nil
			}
			name := r.str()
			r.ws()
			if r.pos >= len(r.b) || r.b[r.pos] != ':' {
				r.ok = false
				return nil
			}
			r.pos++
			it.put(name, r.value(), true)
			r.ws()
			if r.pos < len(r.b) && r.b[r.pos] == ',' {
				r.pos++
				continue
			}
			if r.pos < len(r.b) && r.b[r.pos] == '}' {
				r.pos++
				return it
			}
			r.ok = false
		}
		return nil
	case c == '[':
		r.pos++
		it := &jItem{kind: jkArr}
		r.ws()
		if r.pos < len(r.b) && r.b[r.pos] == ']' {
			r.pos++
			return it
		}
		for r.ok {
			it.elems = append(it.elems, r.value())
			r.ws()
			if r.pos < len(r.b) && r.b[r.pos] == ',' {
				r.pos++
				continue
			}
			if r.pos < len(r.b) && r.b[r.pos] == ']' {
				r.pos++
				return it
			}
			r.ok = false
		}
		return nil
	case c == '"':
		s := r.str()
		return &jItem{kind: jkStr, s: s}
	case c == 't' && r.pos+4 <= len(r.b) && string(r.b[r.pos:r.pos+4]) == "true":
		r.pos += 4
		return &jItem{kind: jkBool, n: 1}
	case c == 'f' && r.pos+5 <= len(r.b) && string(r.b[r.pos:r.pos+5]) == "false":
		r.pos += 5
		return &jItem{kind: jkBool}
	case c == 'n' && r.pos+4 <= len(r.b) && string(r.b[r.pos:r.pos+4]) == "null":
		r.pos += 4
		return &jItem{kind: jkNull}
	case c == '-' || (c >= '0' && c <= '9'):
		neg := false
		if c == '-' {
			neg = true
			r.pos++
		}
		var v int64
		digits := 0
		for r.pos < len(r.b) && r.b[r.pos] >= '0' && r.b[r.pos] <= '9' {
			v = v*10 + int64(r.b[r.pos]-'0')
			r.pos++
			digits++
		}
		if digits == 0 || digits > 18 || (r.pos < len(r.b) && (r.b[r.pos] == '.' || r.b[r.pos] == 'e' || r.b[r.pos] == 'E')) {
			r.ok = false
			return nil
		}
		if neg {
			v = -v
		}
		return &jItem{kind: jkNum, n: v}
	}
	r.ok = false
	return nil
}

// verifParseJSON: the value a buffer produced by the library holds (symbolic: lookup; native:
// independent reader; the whole buffer must be exactly one value)
func verifParseJSON(buf []byte) *jItem {
	if ndSymbolic() {
		return l4lookup(buf)
	}
	r := &jreader{b: buf, ok: true}
	it := r.value()
	r.ws()
	if !r.ok || r.pos != len(buf) {
		return nil
	}
	return it
}
