//go:build verif

package psatoken

// C18: reading, validating, encoding and verifying change nothing and are repeatable;
// decoded claims / Evidence hold no reference to the caller's input buffer.

import (
	"github.com/veraison/eat"
	cose "github.com/veraison/go-cose"
)

var _ = verifReg("C18frame", VerifC18frame)
var _ = verifReg("C18ev", VerifC18ev)
var _ = verifReg("C18retain", VerifC18retain)

// c18snap: everything a claims-set consists of, copied: the struct itself (field pointers),
// the content of every byte string / text / scalar it points to, and the component list.
type c18snap struct {
	p1    P1Claims
	p2    P2Claims
	isP1  bool
	bytes [][]byte // fresh copies
	strs  []string
	ints  []int64
	ncomp int
	comps []SwComponent
	cptr  []*SwComponent
}

// (fields are looked at through interface{} so that the harness compiles whatever Go type a
// field has in the tree under check)
func c18bytes(s *c18snap, f interface{}) {
	switch p := f.(type) {
	case *[]byte:
		if p != nil {
			s.bytes = append(s.bytes, ndCopyBytes(*p))
			return
		}
	case []byte:
		if p != nil {
			s.bytes = append(s.bytes, ndCopyBytes(p))
			return
		}
	case *eat.UEID:
		if p != nil {
			s.bytes = append(s.bytes, ndCopyBytes([]byte(*p)))
			return
		}
	}
	s.bytes = append(s.bytes, nil)
}

func c18str(s *c18snap, f interface{}) {
	switch p := f.(type) {
	case *string:
		if p != nil {
			s.strs = append(s.strs, *p)
			return
		}
	case string:
		s.strs = append(s.strs, p)
		return
	}
	s.strs = append(s.strs, "\x00absent")
}

func c18int(s *c18snap, f interface{}) {
	switch p := f.(type) {
	case *int32:
		if p != nil {
			s.ints = append(s.ints, int64(*p))
		}
	case *int64:
		if p != nil {
			s.ints = append(s.ints, *p)
		}
	case *uint16:
		if p != nil {
			s.ints = append(s.ints, int64(*p))
		}
	case *uint32:
		if p != nil {
			s.ints = append(s.ints, int64(*p))
		}
	case *uint:
		if p != nil {
			s.ints = append(s.ints, int64(*p))
		}
	case *uint64:
		if p != nil {
			s.ints = append(s.ints, int64(*p))
		}
	}
}

func c18sw(s *c18snap, sw ISwComponents) {
	if sw == nil {
		s.ncomp = -1
		return
	}
	cont, ok := sw.(*SwComponents[*SwComponent])
	if !ok {
		s.ncomp = -2
		return
	}
	s.ncomp = len(cont.values)
	for _, sc := range cont.values {
		s.cptr = append(s.cptr, sc)
		if sc != nil {
			s.comps = append(s.comps, *sc)
			c18str(s, sc.MeasurementType)
			c18bytes(s, sc.MeasurementValue)
			c18str(s, sc.Version)
			c18bytes(s, sc.SignerID)
			c18str(s, sc.MeasurementDesc)
		}
	}
}

func c18take(c IClaims) *c18snap {
	s := &c18snap{}
	switch x := c.(type) {
	case *P1Claims:
		s.isP1 = true
		s.p1 = *x
		c18str(s, x.Profile)
		c18int(s, x.ClientID)
		c18int(s, x.SecurityLifeCycle)
		c18int(s, x.NoSwMeasurements)
		c18bytes(s, x.ImplID)
		c18bytes(s, x.BootSeed)
		c18str(s, x.CertificationReference)
		c18bytes(s, x.Nonce)
		c18bytes(s, x.InstID)
		c18str(s, x.VSI)
		c18sw(s, x.SwComponents)
	case *P2Claims:
		s.p2 = *x
		c18int(s, x.ClientID)
		c18int(s, x.SecurityLifeCycle)
		c18bytes(s, x.ImplID)
		c18bytes(s, x.BootSeed)
		c18str(s, x.CertificationReference)
		c18bytes(s, x.InstID)
		if x.Nonce != nil {
			s.ints = append(s.ints, int64(x.Nonce.Len()))
			for i := 0; i < x.Nonce.Len(); i++ {
				b := x.Nonce.GetI(i)
				c18bytes(s, &b)
			}
		}
		c18str(s, x.VSI)
		c18sw(s, x.SwComponents)
	}
	return s
}

func c18same(a, b *c18snap) bool {
	if a.isP1 != b.isP1 || a.p1 != b.p1 || a.p2 != b.p2 || a.ncomp != b.ncomp {
		return false
	}
	if len(a.bytes) != len(b.bytes) || len(a.strs) != len(b.strs) || len(a.ints) != len(b.ints) || len(a.comps) != len(b.comps) || len(a.cptr) != len(b.cptr) {
		return false
	}
	for i := range a.bytes {
		if (a.bytes[i] == nil) != (b.bytes[i] == nil) || !verifSameBytes(a.bytes[i], b.bytes[i]) {
			return false
		}
	}
	for i := range a.strs {
		if a.strs[i] != b.strs[i] {
			return false
		}
	}
	for i := range a.ints {
		if a.ints[i] != b.ints[i] {
			return false
		}
	}
	for i := range a.comps {
		if a.comps[i] != b.comps[i] {
			return false
		}
	}
	for i := range a.cptr {
		if a.cptr[i] != b.cptr[i] {
			return false
		}
	}
	return true
}

// c18op runs read-side operation k on c twice and reports whether both runs agree
func c18op(c IClaims, k int) bool {
	switch k {
	case 0:
		return obsCls(c.Validate()) == obsCls(c.Validate())
	case 1:
		return obsSame(obsOf(c), obsOf(c), -1)
	case 2:
		a, ea := EncodeClaimsToCBOR(c)
		b, eb := EncodeClaimsToCBOR(c)
		return (ea == nil) == (eb == nil) && verifSameBytes(a, b)
	case 3:
		a, ea := EncodeClaimsToJSON(c)
		b, eb := EncodeClaimsToJSON(c)
		return (ea == nil) == (eb == nil) && verifSameBytes(a, b)
	case 4:
		a, ea := ValidateAndEncodeClaimsToCBOR(c)
		b, eb := ValidateAndEncodeClaimsToCBOR(c)
		return (ea == nil) == (eb == nil) && verifSameBytes(a, b)
	}
	a, ea := ValidateAndEncodeClaimsToJSON(c)
	b, eb := ValidateAndEncodeClaimsToJSON(c)
	return (ea == nil) == (eb == nil) && verifSameBytes(a, b)
}

func VerifC18frame() {
	verifInstallStubs()
	verifGenNilElems = ndParam("nilelems", 0) == 1 // list elements decoded from null
	c, _, _ := verifGenClaims()
	verifGenNilElems = false
	pre := c18take(c)
	preObs := obsOf(c)
	k := ndParam("op", 0)
	repeatable := c18op(c, k)
	post := c18take(c)
	ndAssert("c18-read-op-leaves-claims-unchanged", c18same(pre, post))
	ndAssert("c18-read-op-leaves-getters-unchanged", obsSame(preObs, obsOf(c), -1))
	ndAssert("c18-read-op-is-repeatable", repeatable)
	ndCover("c18-frame-ran", true)
}

// Evidence-level read operations on a signed Evidence
func VerifC18ev() {
	verifInstallStubs()
	w := verifNewWorld(2)
	g := c19valid("x.", ".X")
	e := &Evidence{Claims: g.c}
	if _, err := e.Sign(w.signer(0, 0)); err != nil {
		return
	}
	pre := c18take(e.Claims)
	msg := *e.message
	claims := e.Claims
	mptr := e.message
	v1 := e.Verify(w.pub(0)) == nil
	v2 := e.Verify(w.pub(0)) == nil
	w1 := e.Verify(w.pub(1)) == nil
	i1 := e.GetInstanceID()
	i2 := e.GetImplementationID()
	j1, je1 := e.MarshalJSON()
	j2, je2 := e.MarshalJSON()
	ndAssert("c18-verify-repeatable", v1 == v2 && v1 && !w1)
	ndAssert("c18-marshaljson-repeatable", (je1 == nil) == (je2 == nil) && verifSameBytes(j1, j2))
	ndAssert("c18-evidence-unchanged", e.Claims == claims && e.message == mptr && c02sameMessage(e.message, &msg) && c18same(pre, c18take(e.Claims)))
	ndAssert("c18-id-getters", i1 != nil && i2 != nil && verifSameBytes(*i1, g.instID) && verifSameBytes(*i2, g.implID))
	ndCover("c18-ev-ran", v1)
}

// no reference to the caller's buffer survives a decode
func VerifC18retain() {
	verifInstallStubs()
	kind := ndParam("entry", 0)
	switch kind {
	case 0, 1:
		c, g1, g2 := verifGenClaims()
		buf := verifDecodeInput(c, g1, g2, kind == 1)
		var dec IClaims
		var err error
		if kind == 1 {
			dec, err = DecodeClaimsFromJSON(buf)
		} else {
			dec, err = DecodeClaimsFromCBOR(buf)
		}
		if err != nil {
			return
		}
		pre := obsOf(dec)
		var enc0, js0 []byte
		if !ndSymbolic() {
			// (natively a retained reference shows in whatever is derived from the claims later)
			enc0, _ = EncodeClaimsToCBOR(dec)
			js0, _ = EncodeClaimsToJSON(dec)
		}
		aliasFree := !ndReaches(dec, buf)
		verifScribble(buf)
		if !ndSymbolic() {
			enc1, _ := EncodeClaimsToCBOR(dec)
			js1, _ := EncodeClaimsToJSON(dec)
			aliasFree = verifSameBytes(enc0, enc1) && verifSameBytes(js0, js1)
		}
		ndAssert("c18-decoded-claims-do-not-alias-input", aliasFree)
		ndAssert("c18-overwriting-input-changes-no-getter", obsSame(pre, obsOf(dec), -1))
		ndCover("c18-retain-ran", true)
	default:
		w := verifNewWorld(2)
		g := c19valid("x.", ".X")
		e := &Evidence{Claims: g.c}
		tok, err := e.Sign(w.signer(0, 0))
		if err != nil {
			return
		}
		if ndSymbolic() {
			verifScript(e.message.Payload, g)
		}
		buf := ndCopyBytes(tok)
		if ndSymbolic() {
			// the envelope decoder stub recognises a token by identity: present the copy as the token
			verifCose.toks = append(verifCose.toks, verifTokRec{bytes: buf, msg: verifCloneMsg(e.message)})
		}
		ev, derr := DecodeEvidenceFromCOSE(buf)
		if derr != nil {
			return
		}
		pre := obsOf(ev.Claims)
		v1 := ev.Verify(w.pub(0)) == nil
		ndAssert("c18-decoded-evidence-does-not-alias-input", !ndReaches(ev, buf))
		verifScribble(buf)
		v2 := ev.Verify(w.pub(0)) == nil
		ndAssert("c18-overwriting-input-changes-nothing", obsSame(pre, obsOf(ev.Claims), -1) && v1 == v2)
		ndCover("c18-retain-ev-ran", v1)
	}
}

// verifCloneMsg: what a real decoder produces: a message with its own copies of the byte strings
func verifCloneMsg(m *cose.Sign1Message) cose.Sign1Message {
	c := *m
	c.Payload = m.Payload // the payload buffer identity is what the claims-decoder script keys on
	c.Signature = ndCopyBytes(m.Signature)
	return c
}

// verifScribble overwrites the caller's buffer (natively; symbolically the aliasing assertion decides)
func verifScribble(b []byte) {
	if ndSymbolic() {
		return
	}
	for i := range b {
		b[i] ^= 0xa5
	}
}
