//go:build verif

package psatoken

// L3: fxamacker/cbor as a TYPE-DIRECTED CONTRACT over abstract CBOR items (symbolic mode).
//
// A CBOR buffer is a handle to an item tree (vItem). Byte-level well-formedness, key order,
// definite/indefinite lengths and duplicate keys are BELOW this abstraction and outside the
// claim. The struct walk uses reflection over the CURRENT tree's struct tags (key numbers,
// keyasint, omitempty, "-"), so tag edits are seen; leaf behaviour is the case analysis below,
// written from fxamacker v2.5.0's documented behaviour and probed natively:
//   encode: nil pointer / nil interface: omitted under omitempty, else null; a non-nil interface
//           is never "empty" (even holding an empty container); intN -> uint/nint; []byte -> bstr;
//           string -> tstr (no UTF-8 check); slice -> array; Marshaler -> its own method (the
//           repo's methods are executed for real; eat.Nonce / eat.Profile by their contract).
//   decode: absent key leaves the field untouched; null sets a pointer to nil; intN <= uint/nint
//           in range, anything else is an error; []byte <= bstr OR array of uints <= 255;
//           string <= tstr; struct <= map (unknown and text keys ignored); slice <= array;
//           Unmarshaler -> its own method; first error aborts the decode.
// Natively nothing of this runs: items are written/read by the independent minimal CBOR
// writer/reader at the end of this file and the REAL library decodes/encodes.

import (
	"errors"
	"io"
	"reflect"
	"strconv"
	"strings"
	"unicode/utf8"

	cbor "github.com/fxamacker/cbor/v2"
	"github.com/veraison/eat"
)

const (
	ikUint = iota
	ikNint
	ikBstr
	ikTstr
	ikArray
	ikMap
	ikTag
	ikFalse
	ikTrue
	ikNull
	ikFloat
	ikCount
)

// vItem: an abstract CBOR data item. nint holds n with value -1-n.
type vItem struct {
	kind  int
	u     uint64
	b     []byte
	s     string
	elems []*vItem // array elements / map values
	keys  []int64  // map integer keys, parallel to elems
	// has: map entries only: entry i is really in the map iff has[i]. Optional members are
	// carried as (possibly absent) entries so that presence stays SYMBOLIC instead of forking
	// one path per subset of optional claims.
	has   []bool
	inner *vItem // tag content
	// maps only: one optional member under a TEXT key (an unknown extension member)
	tkey  string
	telem *vItem
	thas  bool
}

// put appends a map entry that is present iff present
func (it *vItem) put(key int64, v *vItem, present bool) {
	it.keys = append(it.keys, key)
	it.elems = append(it.elems, v)
	it.has = append(it.has, present)
}

// get: the (first) entry under key and whether it is present
func (it *vItem) get(key int64) (*vItem, bool) {
	if it == nil || it.kind != ikMap {
		return nil, false
	}
	for i, k := range it.keys {
		if k == key && it.has[i] {
			return it.elems[i], true
		}
	}
	return nil, false
}

type l3buf struct {
	buf  []byte
	item *vItem
}

type l3state struct {
	bufs []l3buf
	n    int
	err  bool // the model refused something it does not cover (treated as inconclusive by harnesses)
}

var verifL3 l3state

var errL3 = errors.New("cbor model: cannot (un)marshal")

// l3handle: the (opaque, non-empty) buffer standing for the encoding of item
func l3handle(item *vItem) []byte {
	for _, b := range verifL3.bufs {
		if b.item == item {
			return b.buf
		}
	}
	buf := ndBytes(ndName("cbor.buf", verifL3.n))
	verifL3.n++
	ndAssume(len(buf) > 0)
	if item.kind == ikNull {
		ndAssume(len(buf) == 1 && buf[0] == 0xf6)
	} else if item.kind != ikTag {
		verifMapLike(buf)
	} else if ndSymbolic() {
		// a tagged item, as far as own byte-level code can see it: a one-byte tag head followed
		// by the encoding of the content (null = f6; anything else does not start like null,
		// undefined or another tag)
		ndAssume(len(buf) >= 2 && buf[0]>>5 == 6 && buf[0]&0x1f < 24)
		if item.inner != nil && item.inner.kind == ikNull {
			ndAssume(len(buf) == 2 && buf[1] == 0xf6)
		} else {
			ndAssume(buf[1] != 0xf6 && buf[1] != 0xf7 && buf[1]>>5 != 6)
		}
	}
	verifL3.bufs = append(verifL3.bufs, l3buf{buf, item})
	return buf
}

func l3lookup(buf []byte) *vItem {
	for _, b := range verifL3.bufs {
		if len(buf) > 0 && len(buf) == len(b.buf) && &buf[0] == &b.buf[0] {
			return b.item
		}
	}
	return nil
}

func l3install() {
	verifL3 = l3state{}
	if ndSymbolic() {
		em = l3EM{}
		dm = l3DM{}
	}
}

// ---------- encoder model ----------

type l3EM struct{}

func (l3EM) Marshal(v interface{}) ([]byte, error) {
	if m, ok := v.(cbor.Marshaler); ok {
		return m.MarshalCBOR()
	}
	it, err := l3encode(reflect.ValueOf(v))
	if err != nil {
		return nil, err
	}
	return l3handle(it), nil
}
func (l3EM) NewEncoder(w io.Writer) *cbor.Encoder { return nil }
func (l3EM) EncOptions() cbor.EncOptions          { return cbor.EncOptions{} }

func l3int(v int64) *vItem {
	it := &vItem{}
	l3setInt(it, v)
	return it
}

func l3setInt(it *vItem, v int64) {
	if v >= 0 {
		it.kind, it.u = ikUint, uint64(v)
	} else {
		it.kind, it.u = ikNint, uint64(-1-v)
	}
}

// l3parseTag: (key, omitempty, skip)
func l3parseTag(tag string) (int64, bool, bool) {
	parts := strings.Split(tag, ",")
	if parts[0] == "-" {
		return 0, false, true
	}
	k, err := strconv.Atoi(parts[0])
	if err != nil {
		return 0, false, true
	}
	omit := false
	for _, p := range parts[1:] {
		if p == "omitempty" {
			omit = true
		}
	}
	return int64(k), omit, false
}

// l3encodeLeaf: the value behind a struct field / list element, by Go type
func l3encodeLeaf(x interface{}) (*vItem, bool, error) {
	// (the scalar leaves fill ONE item allocated up front, so that the absent and the present
	// case of a field return the same object and the two paths can be merged)
	null := &vItem{kind: ikNull}
	if x == nil {
		return null, true, nil // nil interface
	}
	switch p := x.(type) {
	case *string:
		if p != nil {
			null.kind, null.s = ikTstr, *p
		}
		return null, p == nil, nil
	case *int32:
		if p != nil {
			l3setInt(null, int64(*p))
		}
		return null, p == nil, nil
	case *int64:
		if p != nil {
			l3setInt(null, *p)
		}
		return null, p == nil, nil
	case *uint16:
		if p != nil {
			null.kind, null.u = ikUint, uint64(*p)
		}
		return null, p == nil, nil
	case *uint:
		if p != nil {
			null.kind, null.u = ikUint, uint64(*p)
		}
		return null, p == nil, nil
	case *[]byte:
		if p != nil {
			null.kind, null.b = ikBstr, *p
		}
		return null, p == nil, nil
	case *eat.UEID:
		if p != nil {
			null.kind, null.b = ikBstr, []byte(*p)
		}
		return null, p == nil, nil
	case *eat.Nonce:
		if p == nil {
			return null, true, nil
		}
		// eat.Nonce.MarshalCBOR: Validate (>= 1 entry, each 8..64 bytes), one entry -> bare bstr
		n := p.Len()
		if n == 0 {
			return nil, false, errL3
		}
		var es []*vItem
		for i := 0; i < n; i++ {
			b := p.GetI(i)
			if len(b) < 8 || len(b) > 64 {
				return nil, false, errL3
			}
			es = append(es, &vItem{kind: ikBstr, b: b})
		}
		if n == 1 {
			return es[0], false, nil
		}
		return &vItem{kind: ikArray, elems: es}, false, nil
	case *eat.Profile:
		if p == nil {
			return null, true, nil
		}
		s, err := p.Get()
		if err != nil {
			return nil, false, errL3
		}
		return &vItem{kind: ikTstr, s: s}, false, nil
	case ISwComponents:
		if p == nil {
			return null, true, nil
		}
		m, ok := p.(cbor.Marshaler)
		if !ok {
			verifL3.err = true
			return nil, false, errL3
		}
		buf, err := m.MarshalCBOR()
		if err != nil {
			return nil, false, err
		}
		it := l3lookup(buf)
		if it == nil {
			verifL3.err = true
			return nil, false, errL3
		}
		return it, false, nil // a non-nil interface is never "empty"
	case string:
		return &vItem{kind: ikTstr, s: p}, p == "", nil
	case []byte:
		// a nil slice encodes as null, an empty one as h''; both are "empty" for omitempty
		if p != nil {
			null.kind, null.b = ikBstr, p
		}
		return null, len(p) == 0, nil
	case int32:
		l3setInt(null, int64(p))
		return null, p == 0, nil
	case int64:
		l3setInt(null, p)
		return null, p == 0, nil
	case uint16:
		null.kind, null.u = ikUint, uint64(p)
		return null, p == 0, nil
	case uint:
		null.kind, null.u = ikUint, uint64(p)
		return null, p == 0, nil
	}
	verifL3.err = true
	return nil, false, errL3
}

func l3encode(rv reflect.Value) (*vItem, error) {
	switch x := rv.Interface().(type) {
	case []*SwComponent:
		it := &vItem{kind: ikArray}
		for _, sc := range x {
			if sc == nil {
				it.elems = append(it.elems, &vItem{kind: ikNull})
				continue
			}
			e, err := l3encodeStruct(reflect.ValueOf(sc).Elem())
			if err != nil {
				return nil, err
			}
			it.elems = append(it.elems, e)
		}
		return it, nil
	}
	if rv.Kind() == reflect.Pointer {
		if rv.IsNil() {
			return &vItem{kind: ikNull}, nil
		}
		rv = rv.Elem()
	}
	if rv.Kind() == reflect.Struct {
		return l3encodeStruct(rv)
	}
	verifL3.err = true
	return nil, errL3
}

func l3encodeStruct(rv reflect.Value) (*vItem, error) {
	it := &vItem{kind: ikMap}
	rt := rv.Type()
	for i := 0; i < rv.NumField(); i++ {
		tag, ok := rt.Field(i).Tag.Lookup("cbor")
		if !ok {
			verifL3.err = true // untagged fields are encoded under their name: not in the model
			return nil, errL3
		}
		key, omit, skip := l3parseTag(tag)
		if skip {
			continue
		}
		child, empty, err := l3encodeLeaf(rv.Field(i).Interface())
		if err != nil {
			return nil, err
		}
		it.put(key, child, !(empty && omit))
	}
	return it, nil
}

// ---------- decoder model ----------

type l3DM struct{}

func (l3DM) Unmarshal(data []byte, v interface{}) error {
	if u, ok := v.(cbor.Unmarshaler); ok {
		return u.UnmarshalCBOR(data)
	}
	it := l3lookup(data)
	if it == nil {
		return errL3 // not a buffer of this model (e.g. empty input): the library rejects garbage
	}
	switch p := v.(type) {
	case *[]*SwComponent:
		return l3decodeComponents(it, p)
	case *[]cbor.RawMessage:
		// an array kept undecoded: one window per element
		a := l3untag(it)
		if a.kind == ikNull {
			*p = nil
			return nil
		}
		if a.kind != ikArray {
			return l3typeErr()
		}
		out := make([]cbor.RawMessage, 0, len(a.elems))
		for _, e := range a.elems {
			out = append(out, cbor.RawMessage(l3handle(e)))
		}
		*p = out
		return nil
	case *map[int]cbor.RawMessage:
		// an integer-keyed map kept undecoded: a member under a key that is not an integer
		// cannot be stored
		m := l3untag(it)
		if m.kind == ikNull {
			*p = nil
			return nil
		}
		if m.kind != ikMap || m.thas {
			return l3typeErr()
		}
		out := map[int]cbor.RawMessage{}
		for i, e := range m.elems {
			if m.has[i] {
				out[int(m.keys[i])] = cbor.RawMessage(l3handle(e))
			}
		}
		*p = out
		return nil
	case *string:
		return l3decodeLeaf(l3untag(it), p)
	case **SwComponent:
		// a pointer destination: null sets it to nil; otherwise a nil pointer gets a fresh
		// struct and a NON-NIL one is decoded INTO (members absent from the map keep their value)
		e := l3untag(it)
		if e.kind == ikNull {
			*p = nil
			return nil
		}
		if *p == nil {
			*p = &SwComponent{}
		}
		return l3decodeStruct(e, reflect.ValueOf(*p).Elem())
	}
	rv := reflect.ValueOf(v).Elem()
	if rv.Kind() == reflect.Struct {
		return l3decodeStruct(it, rv)
	}
	verifL3.err = true
	return errL3
}
func (l3DM) UnmarshalFirst(data []byte, v interface{}) ([]byte, error) { return nil, errL3 }
func (l3DM) Valid(data []byte) error                                  { return nil }
func (l3DM) Wellformed(data []byte) error                             { return nil }
func (l3DM) NewDecoder(r io.Reader) *cbor.Decoder                     { return nil }
func (l3DM) DecOptions() cbor.DecOptions                              { return cbor.DecOptions{} }

// l3untag: tags are transparent for the destination types used here (no-verdict class)
func l3untag(it *vItem) *vItem {
	for it != nil && it.kind == ikTag {
		it = it.inner
	}
	return it
}

func l3decodeComponents(it *vItem, p *[]*SwComponent) error {
	it = l3untag(it)
	if it.kind == ikNull {
		*p = nil
		return nil
	}
	if it.kind != ikArray {
		return errL3
	}
	out := make([]*SwComponent, 0, len(it.elems))
	for _, e := range it.elems {
		e = l3untag(e)
		if e.kind == ikNull {
			out = append(out, nil)
			continue
		}
		sc := &SwComponent{}
		if err := l3decodeStruct(e, reflect.ValueOf(sc).Elem()); err != nil {
			return err
		}
		out = append(out, sc)
	}
	*p = out
	return nil
}

func l3decodeStruct(it *vItem, rv reflect.Value) error {
	it = l3untag(it)
	if it.kind == ikNull {
		return nil
	}
	if it.kind != ikMap {
		return errL3
	}
	rt := rv.Type()
	for i := 0; i < rv.NumField(); i++ {
		tag, ok := rt.Field(i).Tag.Lookup("cbor")
		if !ok {
			continue
		}
		key, _, skip := l3parseTag(tag)
		if skip {
			continue
		}
		child, present := it.get(key)
		if !present {
			continue
		}
		if err := l3decodeLeaf(l3untag(child), rv.Field(i).Addr().Interface()); err != nil {
			return err
		}
	}
	return nil
}

func l3bytes(it *vItem) ([]byte, bool) {
	switch it.kind {
	case ikBstr:
		return ndCopyBytes(it.b), true
	case ikArray:
		// fxamacker: []byte also accepts an array of unsigned integers <= 255
		out := make([]byte, 0, len(it.elems))
		for _, e := range it.elems {
			if e.kind != ikUint || e.u > 255 {
				return nil, false
			}
			out = append(out, byte(e.u))
		}
		return out, true
	}
	return nil, false
}

func l3signed(it *vItem, lo, hi int64) (int64, bool) {
	switch it.kind {
	case ikUint:
		if it.u > uint64(hi) {
			return 0, false
		}
		return int64(it.u), true
	case ikNint:
		if it.u > uint64(-1-lo) {
			return 0, false
		}
		return -1 - int64(it.u), true
	}
	return 0, false
}

// l3typeErr: what the library reports when a CBOR item cannot go into the Go type of its
// destination (wrong major type, integer out of the type's range)
func l3typeErr() error {
	return &cbor.UnmarshalTypeError{CBORType: "item", GoType: "field"}
}

func l3decodeLeaf(it *vItem, fp interface{}) error {
	null := it.kind == ikNull
	switch p := fp.(type) {
	case **string:
		if null {
			*p = nil
			return nil
		}
		if it.kind != ikTstr {
			return l3typeErr()
		}
		if !utf8.ValidString(it.s) {
			return errL3 // the decoder rejects text strings that are not valid UTF-8
		}
		s := it.s
		*p = &s
	case *string:
		if null {
			return nil
		}
		if it.kind != ikTstr {
			return l3typeErr()
		}
		if !utf8.ValidString(it.s) {
			return errL3
		}
		*p = it.s
	case **int32:
		if null {
			*p = nil
			return nil
		}
		v, ok := l3signed(it, -1<<31, 1<<31-1)
		if !ok {
			return l3typeErr()
		}
		x := int32(v)
		*p = &x
	case **int64:
		if null {
			*p = nil
			return nil
		}
		v, ok := l3signed(it, -1<<63, 1<<63-1)
		if !ok {
			return l3typeErr()
		}
		*p = &v
	case **uint16:
		if null {
			*p = nil
			return nil
		}
		if it.kind != ikUint || it.u > 0xffff {
			return l3typeErr()
		}
		x := uint16(it.u)
		*p = &x
	case **uint:
		if null {
			*p = nil
			return nil
		}
		if it.kind != ikUint {
			return l3typeErr()
		}
		x := uint(it.u)
		*p = &x
	case **[]byte:
		if null {
			*p = nil
			return nil
		}
		b, ok := l3bytes(it)
		if !ok {
			return l3typeErr()
		}
		*p = &b
	case **eat.UEID:
		if null {
			*p = nil
			return nil
		}
		b, ok := l3bytes(it)
		if !ok {
			return l3typeErr()
		}
		u := eat.UEID(b)
		*p = &u
	case **eat.Nonce:
		if null {
			*p = nil
			return nil
		}
		// eat.Nonce.UnmarshalCBOR: a bstr of ANY length, or an array of bstr
		n := ndNonceEmpty()
		switch it.kind {
		case ikBstr:
			n = ndNonceAppend(n, ndCopyBytes(it.b))
		case ikArray:
			for _, e := range it.elems {
				if e.kind != ikBstr {
					return errL3
				}
				n = ndNonceAppend(n, ndCopyBytes(e.b))
			}
		default:
			return errL3
		}
		*p = n
	case **eat.Profile:
		if null {
			*p = nil
			return nil
		}
		if it.kind != ikTstr || !utf8.ValidString(it.s) {
			return errL3 // (an OID profile is a bstr: outside the model, reported as an error)
		}
		prof := ndProfileOf(it.s)
		if prof == nil {
			return errL3
		}
		*p = prof
	case *[]byte:
		if null {
			*p = nil
			return nil
		}
		b, ok := l3bytes(it)
		if !ok {
			return l3typeErr()
		}
		*p = b
	case *int32:
		if null {
			return nil
		}
		v, ok := l3signed(it, -1<<31, 1<<31-1)
		if !ok {
			return l3typeErr()
		}
		*p = int32(v)
	case *int64:
		if null {
			return nil
		}
		v, ok := l3signed(it, -1<<63, 1<<63-1)
		if !ok {
			return l3typeErr()
		}
		*p = v
	case *uint16:
		if null {
			return nil
		}
		if it.kind != ikUint || it.u > 0xffff {
			return l3typeErr()
		}
		*p = uint16(it.u)
	case *ISwComponents:
		if *p == nil {
			verifL3.err = true
			return errL3
		}
		u, ok := (*p).(cbor.Unmarshaler)
		if !ok {
			verifL3.err = true
			return errL3
		}
		return u.UnmarshalCBOR(l3handle(it))
	default:
		verifL3.err = true
		return errL3
	}
	return nil
}

// ndProfileOf: the eat.Profile a text string decodes to (nil if it is not an absolute URI).
// Symbolic mode: the engine's eat.Profile contract (same URI grammar as ndEatProfile).
func ndProfileOf(s string) *eat.Profile {
	p := &eat.Profile{}
	if err := p.Set(s); err != nil {
		return nil
	}
	return p
}

// ---------- native side: independent minimal CBOR writer / reader ----------

func verifWriteHead(out []byte, major byte, v uint64) []byte {
	m := major << 5
	switch {
	case v < 24:
		return append(out, m|byte(v))
	case v < 1<<8:
		return append(out, m|24, byte(v))
	case v < 1<<16:
		return append(out, m|25, byte(v>>8), byte(v))
	case v < 1<<32:
		return append(out, m|26, byte(v>>24), byte(v>>16), byte(v>>8), byte(v))
	}
	return append(out, m|27, byte(v>>56), byte(v>>48), byte(v>>40), byte(v>>32), byte(v>>24), byte(v>>16), byte(v>>8), byte(v))
}

func verifWriteItem(out []byte, it *vItem) []byte {
	switch it.kind {
	case ikUint:
		return verifWriteHead(out, 0, it.u)
	case ikNint:
		return verifWriteHead(out, 1, it.u)
	case ikBstr:
		return append(verifWriteHead(out, 2, uint64(len(it.b))), it.b...)
	case ikTstr:
		return append(verifWriteHead(out, 3, uint64(len(it.s))), it.s...)
	case ikArray:
		out = verifWriteHead(out, 4, uint64(len(it.elems)))
		for _, e := range it.elems {
			out = verifWriteItem(out, e)
		}
		return out
	case ikMap:
		n := 0
		for i := range it.elems {
			if it.has[i] {
				n++
			}
		}
		if it.thas {
			n++
		}
		out = verifWriteHead(out, 5, uint64(n))
		if it.thas {
			out = append(verifWriteHead(out, 3, uint64(len(it.tkey))), it.tkey...)
			out = verifWriteItem(out, it.telem)
		}
		for i, e := range it.elems {
			if !it.has[i] {
				continue
			}
			k := it.keys[i]
			if k >= 0 {
				out = verifWriteHead(out, 0, uint64(k))
			} else {
				out = verifWriteHead(out, 1, uint64(-1-k))
			}
			out = verifWriteItem(out, e)
		}
		return out
	case ikTag:
		return verifWriteItem(verifWriteHead(out, 6, it.u), it.inner)
	case ikFalse:
		return append(out, 0xf4)
	case ikTrue:
		return append(out, 0xf5)
	case ikNull:
		return append(out, 0xf6)
	case ikFloat:
		return append(out, 0xf9, 0x3c, 0x00) // 1.0 (half precision)
	}
	panic(verifAbort{"item kind"})
}

// verifReadItem parses one definite-length item; ok=false on anything else
func verifReadItem(b []byte) (it *vItem, rest []byte, ok bool) {
	if len(b) == 0 {
		return nil, nil, false
	}
	major, ai := b[0]>>5, b[0]&0x1f
	var v uint64
	n := 1
	switch {
	case ai < 24:
		v = uint64(ai)
	case ai == 24 && len(b) >= 2:
		v, n = uint64(b[1]), 2
	case ai == 25 && len(b) >= 3:
		v, n = uint64(b[1])<<8|uint64(b[2]), 3
	case ai == 26 && len(b) >= 5:
		v, n = uint64(b[1])<<24|uint64(b[2])<<16|uint64(b[3])<<8|uint64(b[4]), 5
	case ai == 27 && len(b) >= 9:
		for i := 1; i <= 8; i++ {
			v = v<<8 | uint64(b[i])
		}
		n = 9
	default:
		return nil, nil, false
	}
	rest = b[n:]
	switch major {
	case 0:
		return &vItem{kind: ikUint, u: v}, rest, true
	case 1:
		return &vItem{kind: ikNint, u: v}, rest, true
	case 2, 3:
		if uint64(len(rest)) < v {
			return nil, nil, false
		}
		if major == 2 {
			return &vItem{kind: ikBstr, b: rest[:v]}, rest[v:], true
		}
		return &vItem{kind: ikTstr, s: string(rest[:v])}, rest[v:], true
	case 4:
		it = &vItem{kind: ikArray}
		for i := uint64(0); i < v; i++ {
			var e *vItem
			e, rest, ok = verifReadItem(rest)
			if !ok {
				return nil, nil, false
			}
			it.elems = append(it.elems, e)
		}
		return it, rest, true
	case 5:
		it = &vItem{kind: ikMap}
		for i := uint64(0); i < v; i++ {
			var k, e *vItem
			k, rest, ok = verifReadItem(rest)
			if !ok {
				return nil, nil, false
			}
			e, rest, ok = verifReadItem(rest)
			if !ok {
				return nil, nil, false
			}
			switch k.kind {
			case ikUint:
				it.put(int64(k.u), e, true)
			case ikNint:
				it.put(-1-int64(k.u), e, true)
			default:
				return nil, nil, false
			}
		}
		return it, rest, true
	case 6:
		var in *vItem
		in, rest, ok = verifReadItem(rest)
		if !ok {
			return nil, nil, false
		}
		return &vItem{kind: ikTag, u: v, inner: in}, rest, true
	}
	switch b[0] {
	case 0xf4:
		return &vItem{kind: ikFalse}, rest, true
	case 0xf5:
		return &vItem{kind: ikTrue}, rest, true
	case 0xf6, 0xf7:
		return &vItem{kind: ikNull}, rest, true
	}
	return nil, nil, false
}

// verifEncodeItem: the buffer for an item (symbolic: handle; native: real bytes)
func verifEncodeItem(it *vItem) []byte {
	if ndSymbolic() {
		return l3handle(it)
	}
	return verifWriteItem(nil, it)
}

// verifParseItem: the item a buffer produced by the library holds (symbolic: lookup; native:
// independent reader, whole buffer must be exactly one item)
func verifParseItem(buf []byte) *vItem {
	if ndSymbolic() {
		return l3lookup(buf)
	}
	it, rest, ok := verifReadItem(buf)
	if !ok || len(rest) != 0 {
		return nil
	}
	return it
}
