//go:build verif

package psatoken

// C12: JSON round-trips and is equivalent to the CBOR form (L4 + L3 models).

import "unicode/utf8"

var _ = verifReg("C12", VerifC12)

type jsonEntry struct {
	present bool
	name    string
	kind    int
	s       string
	b       []byte
	n       int64
	list    *genSws
}

func (g *genP1) jsonTable() []jsonEntry {
	return []jsonEntry{
		{present: g.hasProfile, name: "psa-profile", kind: jkStr, s: g.profile},
		{present: true, name: "psa-client-id", kind: jkNum, n: int64(g.clientID)},
		{present: true, name: "psa-security-lifecycle", kind: jkNum, n: int64(g.lc)},
		{present: true, name: "psa-implementation-id", kind: jkB64, b: g.implID},
		{present: true, name: "psa-boot-seed", kind: jkB64, b: g.boot},
		{present: g.hasCertRef, name: "psa-hwver", kind: jkStr, s: g.certRef},
		{present: g.sw.count() > 0, name: "psa-software-components", kind: jkArr, list: g.sw},
		{present: g.hasNoSw, name: "psa-no-software-measurements", kind: jkNum, n: int64(g.noSw)},
		{present: true, name: "psa-nonce", kind: jkB64, b: g.nonce},
		{present: true, name: "psa-instance-id", kind: jkB64, b: g.instID},
		{present: g.hasVSI, name: "psa-verification-service-indicator", kind: jkStr, s: g.vsi},
	}
}

func (g *genP2) jsonTable() []jsonEntry {
	var n0 []byte
	if len(g.nonces) >= 1 {
		n0 = g.nonces[0]
	}
	return []jsonEntry{
		{present: true, name: "eat-profile", kind: jkStr, s: g.profStr},
		{present: true, name: "psa-client-id", kind: jkNum, n: int64(g.clientID)},
		{present: true, name: "psa-security-lifecycle", kind: jkNum, n: int64(g.lc)},
		{present: true, name: "psa-implementation-id", kind: jkB64, b: g.implID},
		{present: g.hasBoot, name: "psa-boot-seed", kind: jkB64, b: g.boot},
		{present: g.hasCertRef, name: "psa-certification-reference", kind: jkStr, s: g.certRef},
		{present: true, name: "psa-software-components", kind: jkArr, list: g.sw},
		{present: true, name: "psa-nonce", kind: jkB64, b: n0},
		{present: true, name: "psa-instance-id", kind: jkB64, b: g.instID},
		{present: g.hasVSI, name: "psa-verification-service-indicator", kind: jkStr, s: g.vsi},
	}
}

func (g *genSw) jsonTable() []jsonEntry {
	return []jsonEntry{
		{present: g.hasMT, name: "measurement-type", kind: jkStr, s: g.mt},
		{present: true, name: "measurement-value", kind: jkB64, b: g.mv},
		{present: g.hasVer, name: "version", kind: jkStr, s: g.ver},
		{present: true, name: "signer-id", kind: jkB64, b: g.sid},
		{present: g.hasDesc, name: "measurement-description", kind: jkStr, s: g.desc},
	}
}

// jsonMatches: the object holds precisely the table's members for the claims that are set
// (absent optional claims are absent members, not null), each with the right JSON type and value
func jsonMatches(it *jItem, w []jsonEntry) bool {
	if it == nil || it.kind != jkObj {
		return false
	}
	for i, k := range it.names {
		if !it.has[i] {
			continue
		}
		known := false
		for _, e := range w {
			if e.name == k {
				known = true
			}
		}
		if !known {
			return false
		}
	}
	for _, e := range w {
		n := 0
		for i, k := range it.names {
			if k == e.name && it.has[i] {
				n++
			}
		}
		if e.present {
			c, _ := it.get(e.name)
			if n != 1 || !jsonEntryMatches(c, e) {
				return false
			}
		} else if n != 0 {
			return false
		}
	}
	return true
}

func jsonEntryMatches(c *jItem, e jsonEntry) bool {
	if c == nil {
		return false
	}
	switch e.kind {
	case jkNum:
		return c.kind == jkNum && c.n == e.n
	case jkStr:
		return c.kind == jkStr && c.s == e.s
	case jkB64:
		if ndSymbolic() {
			return c.kind == jkB64 && verifSameBytes(c.b, e.b)
		}
		if c.kind != jkStr {
			return false
		}
		b, ok := verifUnbase64(c.s)
		return ok && verifSameBytes(b, e.b)
	case jkArr:
		if c.kind != jkArr || len(c.elems) != e.list.count() {
			return false
		}
		for i, gc := range e.list.comps {
			if !jsonMatches(c.elems[i], gc.jsonTable()) {
				return false
			}
		}
		return true
	}
	return false
}

func VerifC12() {
	l3install()
	l4install()
	c, wcbor, g1, g2 := verifGenValid()
	// the property restricts itself to claims-sets whose text claims are valid UTF-8
	ndAssume(c09textOK(g1, g2))
	if g1 != nil {
		ndAssume(g1.noSw <= 1<<62) // the model's JSON numbers are int64
	}
	var table []jsonEntry
	if g1 != nil {
		table = g1.jsonTable()
	} else {
		table = g2.jsonTable()
	}
	j, err := EncodeClaimsToJSON(c)
	ndAssert("c12-valid-claims-encode-to-json", err == nil)
	if err != nil {
		return
	}
	ndAssert("c12-json-members-names-types-omissions", jsonMatches(verifParseJSON(j), table))
	dec, derr := DecodeClaimsFromJSON(j)
	ndAssert("c12-own-json-decodes-through-the-dispatcher", derr == nil)
	if derr != nil {
		return
	}
	ndAssert("c12-json-roundtrip-is-identity-on-getters", obsSame(obsOf(dec), obsOf(c), -1))
	// CBOR -> claims -> JSON -> claims -> CBOR reproduces the CBOR
	cb, cerr := EncodeClaimsToCBOR(c)
	if cerr != nil {
		return
	}
	c1, e1 := DecodeClaimsFromCBOR(cb)
	if e1 != nil {
		return
	}
	j1, e2 := EncodeClaimsToJSON(c1)
	ndAssert("c12-cbor-decoded-claims-encode-to-json", e2 == nil)
	if e2 != nil {
		return
	}
	c2, e3 := DecodeClaimsFromJSON(j1)
	ndAssert("c12-cross-format-json-decodes", e3 == nil)
	if e3 != nil {
		return
	}
	cb2, e4 := EncodeClaimsToCBOR(c2)
	ndAssert("c12-cbor-json-cbor-reproduces-the-cbor", e4 == nil && c09sameEncoding(cb, cb2) && wireMatches(verifParseItem(cb2), wcbor))
	ndCover("c12-ran", true)
	if g1 != nil {
		ndCover("c12-p1-without-explicit-profile", !g1.hasProfile)
	}
}

var _ = utf8.ValidString
