//go:build verif

package psatoken

// C19: an Evidence never verifies for claims other than the ones last signed or decoded.
// Bounded histories over {SetClaims(valid|invalid), Sign, ValidateAndSign (with signer
// faults), UnmarshalCOSE(own | other-key | tampered payload | tampered signature | garbage |
// undecodable payload), Verify(right|wrong key)}: the operation at each step is a symbolic
// choice.

import (
	"crypto/rand"

	cose "github.com/veraison/go-cose"
)

var _ = verifReg("C19", VerifC19)

type c19bind struct {
	payload []byte
	claims  IClaims // claims the payload encodes (nil = undecodable)
	key     int
}

type c19tok struct {
	bytes  []byte
	key    int
	claims IClaims
}

type c19 struct {
	w           *verifWorld
	e           *Evidence
	gx, gy, gz  *genP1
	binds       []c19bind
	toks        []c19tok
	replaced    bool
	failedSince bool
	objs        []c19obj // claims objects created by decoding -> the generated set they equal
}

type c19obj struct {
	c IClaims
	g *genP1
}

func c19valid(pfx, label string) *genP1 {
	verifGenPfx = pfx
	g := genP1Claims(0, 4)
	verifGenPfx = ""
	ndAssume(g.specValid())
	verifSetLabel(g.c, label)
	return g
}

func (h *c19) bound(payload []byte) (IClaims, int, bool) {
	for _, b := range h.binds {
		// symbolic: the very same buffer; native: the real decoder copies, so equal content
		if verifIsSameBuffer(payload, b.payload) || (!ndSymbolic() && len(payload) > 0 && verifSameBytes(payload, b.payload)) {
			return b.claims, b.key, true
		}
	}
	return nil, 0, false
}

func (h *c19) gen(c IClaims) *genP1 {
	switch c {
	case IClaims(h.gx.c):
		return h.gx
	case IClaims(h.gy.c):
		return h.gy
	case IClaims(h.gz.c):
		return h.gz
	}
	for _, o := range h.objs {
		if o.c == c {
			return o.g
		}
	}
	return nil
}

// bind records which claims-set a payload encodes; encodings of different claims-sets differ
func (h *c19) bind(payload []byte, claims IClaims, key int) {
	for _, b := range h.binds {
		if h.gen(b.claims) != h.gen(claims) {
			ndAssume(!verifSameBytes(payload, b.payload))
		}
	}
	h.binds = append(h.binds, c19bind{payload: payload, claims: claims, key: key})
}

// script: tell the decoder stub which claims-set a payload decodes to (symbolic mode)
func (h *c19) script(payload []byte, c IClaims) {
	if ndSymbolic() {
		verifScript(payload, h.gen(c))
	}
}

func c19encodable(label string) bool {
	if !ndSymbolic() {
		return true
	}
	return !ndBool("em.err" + label)
}

func (h *c19) sign(validate bool, t int) {
	if h.e.Claims == nil {
		return
	}
	fault := ndInt(ndName("fault", t))
	ndAssume(fault >= 0 && fault <= 3)
	fault = ndConcrete(fault)
	signer := h.w.signer(0, fault)
	claims := h.e.Claims
	var tok []byte
	var err error
	if validate {
		tok, err = h.e.ValidateAndSign(signer)
	} else {
		tok, err = h.e.Sign(signer)
	}
	failed := err != nil
	ndAssert("c19-failed-operation-returns-no-token", !failed || len(tok) == 0)
	shouldWork := fault == 0 && c19encodable(verifLabelOf(claims)) && (!validate || verifValid(claims))
	ndAssert("c19-earlier-failure-does-not-prevent-success", !shouldWork || !failed)
	// faults 1 (error) and 2 (no signature bytes) must surface as a failure; a signer that
	// merely reports an algorithm value go-cose does not know (3) carries no verdict here
	ndAssert("c19-faulty-signer-fails", (fault != 1 && fault != 2) || failed)
	if failed {
		h.failedSince = true
		h.replaced = false
		return
	}
	h.failedSince = false
	h.replaced = false
	h.bind(h.e.message.Payload, claims, 0)
	h.script(h.e.message.Payload, claims)
	if fault == 0 {
		h.toks = append(h.toks, c19tok{bytes: tok, key: 0, claims: claims})
	}
}

// craft builds a token natively/symbolically through go-cose's own API
func (h *c19) craft(payload []byte, key int) []byte {
	m := cose.NewSign1Message()
	m.Payload = payload
	m.Headers.Protected.SetAlgorithm(cose.AlgorithmES256)
	if err := m.Sign(rand.Reader, []byte(""), h.w.signer(key, 0)); err != nil {
		panic(verifAbort{"craft: sign"})
	}
	out, err := m.MarshalCBOR()
	if err != nil {
		panic(verifAbort{"craft: marshal"})
	}
	return out
}

func (h *c19) payloadOf(c IClaims, fresh string) []byte {
	if ndSymbolic() {
		b := ndBytes(fresh)
		ndAssume(len(b) > 0)
		verifNoTag(b)
		return b
	}
	return verifRealCBOR(c)
}

func (h *c19) payloadOfInvalid() []byte {
	if ndSymbolic() {
		b := ndBytes("payload.invalid")
		ndAssume(len(b) > 0)
		verifNoTag(b)
		return b
	}
	return verifRealCBOR(h.gz.c)
}

func (h *c19) decode(t int) {
	kind := ndInt(ndName("tok", t))
	ndAssume(kind >= 0 && kind <= 6)
	kind = ndConcrete(kind)
	var buf []byte
	switch kind {
	case 0: // a token this Evidence produced earlier
		if len(h.toks) == 0 {
			return
		}
		buf = h.toks[len(h.toks)-1].bytes
	case 1: // honest token for the other claims-set made with the OTHER key
		p := h.payloadOf(h.gy.c, "payload.otherkey")
		h.bind(p, h.gy.c, 1)
		h.script(p, h.gy.c)
		buf = h.craft(p, 1)
	case 2, 4: // tampered: payload replaced (2) or signature replaced (4), rest of an own token kept
		if len(h.toks) == 0 {
			return
		}
		src := cose.NewSign1Message()
		if err := src.UnmarshalCBOR(h.toks[len(h.toks)-1].bytes); err != nil {
			panic(verifAbort{"tamper: decode own token"})
		}
		if kind == 2 {
			p := h.payloadOf(h.gy.c, "payload.tampered")
			h.bind(p, h.gy.c, -1)
			h.script(p, h.gy.c)
			src.Payload = p
		} else {
			sig := ndCopyBytes(src.Signature)
			sig[0] ^= ndUint8("sigflip") | 1
			src.Signature = sig
		}
		if ndSymbolic() {
			verifCose.decoded = src
			buf = ndBytes(ndName("attacker.bytes", t))
			ndAssume(len(buf) > 0)
		} else {
			out, err := src.MarshalCBOR()
			if err != nil {
				panic(verifAbort{"tamper: marshal"})
			}
			buf = out
		}
	case 3: // garbage
		if ndSymbolic() {
			verifCose.decoded = nil
			buf = ndBytes(ndName("garbage", t))
			ndAssume(len(buf) > 0)
		} else {
			buf = []byte{0xd2, 0x84, 0x00}
		}
	case 6: // honestly signed token (Sign does not validate) carrying the INVALID claims-set
		p := h.payloadOfInvalid()
		h.bind(p, h.gz.c, 0)
		if ndSymbolic() {
			verifScript(p, h.gz)
		}
		buf = h.craft(p, 0)
	case 5: // honestly signed envelope whose payload is not a claims map
		var p []byte
		if ndSymbolic() {
			p = ndBytes("payload.undecodable")
			ndAssume(len(p) > 0)
			verifNoTag(p)
			verifScript(p, nil)
		} else {
			p = []byte{0x01}
		}
		h.bind(p, nil, 0)
		buf = h.craft(p, 0)
	}
	err := h.e.UnmarshalCOSE(buf)
	h.replaced = false
	if err == nil {
		h.failedSince = false
		// the claims object created by decoding equals the set its payload was scripted to yield
		if bc, _, known := h.bound(h.e.message.Payload); known && h.e.Claims != nil {
			if g := h.gen(bc); g != nil {
				h.objs = append(h.objs, c19obj{c: h.e.Claims, g: g})
				verifSetLabel(h.e.Claims, verifLabelOf(g.c))
			}
		}
	}
	ndAssert("c19-garbage-is-rejected", kind != 3 || err != nil)
	ndAssert("c19-undecodable-payload-is-rejected", kind != 5 || (err != nil && h.e.Claims == nil))
	if fo := ndParam("firstop", -1); fo == 2 || fo == 3 {
		ndCover("c19-decode-own-ok", kind == 0 && err == nil)
	}
}

func (h *c19) verify(t int) {
	k := ndInt(ndName("vkey", t))
	ndAssume(k >= 0 && k <= 1)
	k = ndConcrete(k)
	if h.e.Verify(h.w.pub(k)) != nil {
		return
	}
	ndAssert("c19-no-verify-after-failed-sign", !h.failedSince)
	claims, key, known := h.bound(h.e.message.Payload)
	ndAssert("c19-verified-payload-is-known-and-key-matches", known && key == k)
	if !h.replaced && known {
		ok := h.e.Claims == nil
		if !ok && claims != nil {
			ok = obsSame(obsOf(h.e.Claims), obsOf(claims), -1)
		}
		ndAssert("c19-verified-claims-are-the-signed-or-decoded-ones", ok)
	}
	ndCover("c19-verify-ok", true)
}

func VerifC19() {
	verifInstallStubs()
	h := &c19{w: verifNewWorld(2), e: &Evidence{}}
	h.gx = c19valid("x.", ".X")
	h.gy = c19valid("y.", ".Y")
	ndAssume(h.gx.clientID != h.gy.clientID) // the two claims-sets are observably different
	verifGenPfx = "z."
	h.gz = genP1Claims(0, 4)
	verifGenPfx = ""
	// invalid but natively encodable: only the lifecycle value is wrong
	ndAssume(h.gz.specValidExcept(true) && h.gz.hasLC && !specLifecycleValid(h.gz.lc))
	verifSetLabel(h.gz.c, ".Z")
	if h.e.SetClaims(h.gx.c) != nil {
		ndAssert("c19-initial-attach", false)
		return
	}
	steps := ndParam("steps", 2)
	for t := 0; t < steps; t++ {
		op := ndInt(ndName("op", t))
		ndAssume(op >= 0 && op <= 5)
		if t == 0 && ndParam("firstop", -1) >= 0 {
			ndAssume(op == ndParam("firstop", -1))
		}
		switch ndConcrete(op) {
		case 0:
			c := h.gx.c
			if ndBool(ndName("attach.y", t)) {
				c = h.gy.c
			}
			if h.e.SetClaims(c) == nil {
				h.replaced = true
			}
		case 1:
			prev := h.e.Claims
			ndAssert("c19-invalid-attach-rejected", h.e.SetClaims(h.gz.c) != nil && h.e.Claims == prev)
		case 2:
			h.sign(false, t)
		case 3:
			h.sign(true, t)
		case 4:
			h.decode(t)
		case 5:
			h.verify(t)
		}
	}
	// every history ends with a verification attempt (either key)
	h.verify(steps)
	// every token an honest signer produced still decodes and verifies on its own
	for _, tk := range h.toks {
		ev := &Evidence{}
		ok := ev.UnmarshalCOSE(tk.bytes) == nil && ev.Verify(h.w.pub(tk.key)) == nil
		ndAssert("c19-each-signed-token-is-independently-valid", ok)
		ndAssert("c19-signed-token-rejected-by-other-key", !ok || ev.Verify(h.w.pub(1-tk.key)) != nil)
	}
	if fo := ndParam("firstop", -1); fo == 2 || fo == 3 {
		ndCover("c19-two-tokens", len(h.toks) == 2)
	}
}
