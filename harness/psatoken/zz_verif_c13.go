//go:build verif

package psatoken

// C13: every error from a getter, a setter or validation carries the documented sentinel
// class; FilterError returns nil exactly for nil / missing-optional / not-in-profile.

import (
	"errors"
	"fmt"
)

var _ = verifReg("C13p1", VerifC13p1)
var _ = verifReg("C13p2", VerifC13p2)
var _ = verifReg("C13set", VerifC13set)
var _ = verifReg("C13filter", VerifC13filter)

const (
	clsMand    = 1
	clsOpt     = 2
	clsSyntax  = 4
	clsProfile = 8
	clsNotIn   = 16
)

// verifClass: bit mask of the sentinel classes err belongs to (0 for nil or unclassed).
func verifClass(err error) int {
	m := 0
	if errors.Is(err, ErrMissingMandatory) {
		m |= clsMand
	}
	if errors.Is(err, ErrMissingOptional) {
		m |= clsOpt
	}
	if errors.Is(err, ErrWrongSyntax) {
		m |= clsSyntax
	}
	if errors.Is(err, ErrWrongProfile) {
		m |= clsProfile
	}
	if errors.Is(err, ErrNotInProfile) {
		m |= clsNotIn
	}
	return m
}

// verifClassOK: err is nil iff want == 0, otherwise it is in exactly the class want.
func verifClassOK(err error, want int) bool {
	if want == 0 {
		return err == nil
	}
	return err != nil && verifClass(err) == want
}

func specHashClass(has bool, n int) int {
	if !has {
		return clsMand
	}
	if !specHash(n) {
		return clsSyntax
	}
	return 0
}

func (g *genSw) specClass() int {
	if c := specHashClass(g.hasMV, len(g.mv)); c != 0 {
		return c
	}
	return specHashClass(g.hasSID, len(g.sid))
}

// class of the first offending component (0 if all are well-formed)
func (g *genSws) specClass() int {
	for _, c := range g.comps {
		if k := c.specClass(); k != 0 {
			return k
		}
	}
	return 0
}

func specLenClass(has bool, missing int, okLen bool) int {
	if !has {
		return missing
	}
	if !okLen {
		return clsSyntax
	}
	return 0
}

// c13 asserts the class of one getter's error and returns the offending class (optional-missing excluded).
// (the getter runs inside this helper so that its error value does not outlive the call:
// the engine merges paths at function return, and integers merge where error objects do not)
func c13(id string, get func() error, want int) int {
	ndAssert(id, verifClassOK(get(), want))
	return want &^ clsOpt
}

func (g *genP1) c13ProfileClass() int {
	if g.hasProfile && g.profile != "PSA_IOT_PROFILE_1" {
		return clsProfile
	}
	return 0
}

func (g *genP1) c13SwClass() int {
	if g.sw.count() == 0 {
		if !g.hasNoSw {
			return clsMand
		}
		return 0
	}
	if g.hasNoSw {
		return clsSyntax
	}
	return g.sw.specClass()
}

func c13ValidateOK(ve error, offending int) bool {
	vc := verifClass(ve)
	return (ve == nil) == (offending == 0) && (ve == nil || (vc&offending != 0 && vc&^offending == 0))
}

func VerifC13p1() {
	g := genP1Claims(ndParam("maxcomp", 2), ndParam("strmax", 6))
	c := g.c
	// union of the classes of all offending claims (optional-missing excluded)
	offending := c13("p1-class-profile", func() error { _, e := c.GetProfile(); return e }, g.c13ProfileClass()) |
		c13("p1-class-clientid", func() error { _, e := c.GetClientID(); return e }, specLenClass(g.hasClientID, clsMand, true)) |
		c13("p1-class-lifecycle", func() error { _, e := c.GetSecurityLifeCycle(); return e }, specLenClass(g.hasLC, clsMand, specLifecycleValid(g.lc))) |
		c13("p1-class-implid", func() error { _, e := c.GetImplID(); return e }, specLenClass(g.hasImplID, clsMand, len(g.implID) == 32)) |
		c13("p1-class-bootseed", func() error { _, e := c.GetBootSeed(); return e }, specLenClass(g.hasBoot, clsMand, len(g.boot) == 32)) |
		c13("p1-class-certref", func() error { _, e := c.GetCertificationReference(); return e }, specLenClass(g.hasCertRef, clsOpt, specCertRefP1(g.certRef))) |
		c13("p1-class-swcomponents", func() error { _, e := c.GetSoftwareComponents(); return e }, g.c13SwClass()) |
		c13("p1-class-nonce", func() error { _, e := c.GetNonce(); return e }, specLenClass(g.hasNonce, clsMand, specHash(len(g.nonce)))) |
		c13("p1-class-instid", func() error { _, e := c.GetInstID(); return e }, specLenClass(g.hasInstID, clsMand, specInstID(g.instID))) |
		c13("p1-class-vsi", func() error { _, e := c.GetVSI(); return e }, specLenClass(g.hasVSI, clsOpt, g.vsi != ""))
	ve := c.Validate()
	ndAssert("p1-validate-class", c13ValidateOK(ve, offending))
	ndCover("p1-profile-mismatch", verifClass(ve) == clsProfile)
	ndCover("p1-missing-and-syntax", offending == clsMand|clsSyntax)
}

func specCertRefP1(s string) bool { return specEAN13(s) || specEAN13p5(s) }

func (g *genP2) c13ProfileClass() int {
	if g.profKind == 0 {
		return clsMand
	}
	if g.profStr != "http://arm.com/psa/2.0.0" {
		return clsProfile
	}
	return 0
}

func (g *genP2) c13SwClass() int {
	if g.sw.count() == 0 {
		return clsMand
	}
	return g.sw.specClass()
}

func (g *genP2) c13NonceClass() int {
	if !g.hasNonce {
		return clsMand
	}
	if len(g.nonces) != 1 || !specHash(len(g.nonces[0])) {
		return clsSyntax
	}
	return 0
}

func specBootP2(n int) bool { return n >= 8 && n <= 32 }

func VerifC13p2() {
	g := genP2Claims(ndParam("maxcomp", 2), ndParam("strmax", 6), 2)
	ndAssume(g.profKind != 1) // the zero-value eat.Profile is not reachable from constructors, setters or decoding
	c := g.c
	offending := c13("p2-class-profile", func() error { _, e := c.GetProfile(); return e }, g.c13ProfileClass()) |
		c13("p2-class-clientid", func() error { _, e := c.GetClientID(); return e }, specLenClass(g.hasClientID, clsMand, true)) |
		c13("p2-class-lifecycle", func() error { _, e := c.GetSecurityLifeCycle(); return e }, specLenClass(g.hasLC, clsMand, specLifecycleValid(g.lc))) |
		c13("p2-class-implid", func() error { _, e := c.GetImplID(); return e }, specLenClass(g.hasImplID, clsMand, len(g.implID) == 32)) |
		c13("p2-class-bootseed", func() error { _, e := c.GetBootSeed(); return e }, specLenClass(g.hasBoot, clsOpt, specBootP2(len(g.boot)))) |
		c13("p2-class-certref", func() error { _, e := c.GetCertificationReference(); return e }, specLenClass(g.hasCertRef, clsOpt, specEAN13p5(g.certRef))) |
		c13("p2-class-swcomponents", func() error { _, e := c.GetSoftwareComponents(); return e }, g.c13SwClass()) |
		c13("p2-class-nonce", func() error { _, e := c.GetNonce(); return e }, g.c13NonceClass()) |
		c13("p2-class-instid", func() error { _, e := c.GetInstID(); return e }, specLenClass(g.hasInstID, clsMand, specInstID(g.instID))) |
		c13("p2-class-vsi", func() error { _, e := c.GetVSI(); return e }, specLenClass(g.hasVSI, clsOpt, g.vsi != ""))
	ve := c.Validate()
	ndAssert("p2-validate-class", c13ValidateOK(ve, offending))
	ndCover("p2-nonce-count", g.hasNonce && len(g.nonces) == 2 && verifClass(ve) == clsSyntax)
}

// setter and component-level errors
func VerifC13set() {
	lc := ndUint16("lc")
	b := ndBytes("b")
	s := ndString("s", 24)
	for i, name := range []string{"PSA_IOT_PROFILE_1", "http://arm.com/psa/2.0.0"} {
		c, err := NewClaims(name)
		if err != nil {
			ndAssert("newclaims", false)
			return
		}
		bootOK := len(b) == 32
		if i == 1 {
			bootOK = len(b) >= 8 && len(b) <= 32
		}
		ndAssert("set-class-lifecycle", verifSetOK(c.SetSecurityLifeCycle(lc)))
		ndAssert("set-class-implid", verifSetOK(c.SetImplID(b)))
		e := c.SetBootSeed(b)
		ndAssert("set-class-bootseed", verifSetOK(e) && (e == nil) == bootOK)
		ndAssert("set-class-nonce", verifSetOK(c.SetNonce(b)))
		ndAssert("set-class-instid", verifSetOK(c.SetInstID(b)))
		ndAssert("set-class-vsi", verifSetOK(c.SetVSI(s)))
		ndAssert("set-class-certref", verifSetOK(c.SetCertificationReference(s)))
	}
	// software component: getters, setters, Validate
	g := genSwComponent("sc", 6)
	_, e := g.sc.GetMeasurementValue()
	ndAssert("sc-class-mv", verifClassOK(e, specHashClass(g.hasMV, len(g.mv))))
	_, e = g.sc.GetSignerID()
	ndAssert("sc-class-sid", verifClassOK(e, specHashClass(g.hasSID, len(g.sid))))
	_, e = g.sc.GetMeasurementType()
	ndAssert("sc-class-mt", verifClassOK(e, specLenClass(g.hasMT, clsOpt, true)))
	_, e = g.sc.GetVersion()
	ndAssert("sc-class-ver", verifClassOK(e, specLenClass(g.hasVer, clsOpt, true)))
	_, e = g.sc.GetMeasurementDesc()
	ndAssert("sc-class-desc", verifClassOK(e, specLenClass(g.hasDesc, clsOpt, true)))
	ndAssert("sc-class-validate", verifClassOK(g.sc.Validate(), g.specClass()))
	sc := &SwComponent{}
	ndAssert("sc-set-mv", verifSetOK(sc.SetMeasurementValue(b)))
	ndAssert("sc-set-sid", verifSetOK(sc.SetSignerID(b)))
	// list setter: class of the offending component
	for _, name := range []string{"PSA_IOT_PROFILE_1", "http://arm.com/psa/2.0.0"} {
		c, _ := NewClaims(name)
		e := c.SetSoftwareComponents([]ISwComponent{g.sc})
		ndAssert("set-class-swcomponents", verifClassOK(e, g.specClass()))
	}
	ndCover("set-fails", c13lastSetFailed(sc, b))
}

func c13lastSetFailed(sc *SwComponent, b []byte) bool { return sc.SetSignerID(b) != nil }

// a failed setter reports exactly the wrong-syntax class
func verifSetOK(err error) bool { return err == nil || verifClass(err) == clsSyntax }

// ---------- FilterError over arbitrarily wrapped errors ----------

type verifWrapErr struct{ inner error }

func (w verifWrapErr) Error() string { return "custom wrap" }
func (w verifWrapErr) Unwrap() error { return w.inner }

func verifBaseErr(k int) (error, bool) {
	switch k {
	case 0:
		return nil, false
	case 1:
		return ErrMissingOptional, true
	case 2:
		return ErrNotInProfile, true
	case 3:
		return ErrMissingMandatory, false
	case 4:
		return ErrWrongProfile, false
	case 5:
		return ErrWrongSyntax, false
	case 6:
		return ErrOptionalClaimMissing, true
	case 7:
		return ErrOptionalFieldMissing, true
	case 8:
		return ErrClaimNotInProfile, true
	case 9:
		return ErrFieldNotInProfile, true
	case 10:
		return ErrMandatoryClaimMissing, false
	case 11:
		return ErrMandatoryFieldMissing, false
	case 12:
		return errors.New("missing optional"), false // same text, fresh identity
	}
	return errors.New("not in profile"), false
}

func verifWrapOnce(e error, filtered bool, k int) (error, bool) {
	if e == nil {
		return e, filtered
	}
	switch k {
	case 1:
		return fmt.Errorf("ctx: %w", e), filtered
	case 2:
		return fmt.Errorf("ctx: %v", e), false
	case 3:
		return errors.Join(errors.New("other"), e), filtered
	case 4:
		return fmt.Errorf("%w and %w", ErrWrongSyntax, e), filtered
	case 5:
		return verifWrapErr{e}, filtered
	}
	return e, filtered
}

func VerifC13filter() {
	e, filtered := verifBaseErr(ndInt("base"))
	depth := ndParam("depth", 2)
	for i := 0; i < depth; i++ {
		e, filtered = verifWrapOnce(e, filtered, ndInt(ndName("wrap", i)))
	}
	got := FilterError(nil, e)
	if e == nil || filtered {
		ndAssert("filter-nil", got == nil)
	} else {
		ndAssert("filter-identity", got == e)
	}
	ndCover("filter-wrapped-optional", filtered && e != ErrMissingOptional && got == nil)
	ndCover("filter-killed-by-v", !filtered && e != nil)
}
