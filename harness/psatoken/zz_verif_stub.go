//go:build verif

package psatoken

// Contract stubs (L0) for the element codecs used by package psatoken, written as ordinary
// Go. They are installed only in symbolic mode (verifInstallStubs); natively the real
// fxamacker/cbor modes and encoding/json run, so that a counterexample is reported only if
// the real libraries reproduce it.
//
//   CBOR encode: em.Marshal(v)      -> dispatches to v.MarshalCBOR (the repo's own method is
//                                      executed for real); the alias-struct level returns an
//                                      error or ONE fixed arbitrary byte string ("em.out"):
//                                      a deterministic function of the call, as the library is.
//   CBOR decode: dm.Unmarshal(b, v) -> dispatches to v.UnmarshalCBOR (real method executed);
//                                      the alias-struct level fails or fills the destination
//                                      with the claims-set the harness generator built (ANY
//                                      value of the destination type); the selector struct is
//                                      filled with the profile string that claims-set declares.
//   JSON: json.Marshal / json.Unmarshal are routed here by the engine (verifJSON*), same shape.

import (
	"encoding/json"
	"errors"
	"io"
	"reflect"

	cbor "github.com/fxamacker/cbor/v2"
	"github.com/veraison/eat"
)

var verifErrStub = errors.New("stub: codec error")

type verifStubState struct {
	installed bool
	ndErr     bool // a stub failed by its own nondeterministic choice
	// encode side
	emCalls   int
	emArg     interface{} // last value that reached the alias-struct level
	emTop     interface{} // outermost value of the Marshal call in progress
	labels    []verifLabel
	jsonCalls int
	jsonArg   interface{}
	// decode side: what the decoder yields
	p1      *genP1
	p2      *genP2
	selProf string        // profile text under key 265 ("" = absent)
	bufs    [][]byte      // every buffer handed to the decoder
	dsts    []interface{} // every destination
	jsonMap map[string]interface{}
	jsonRaw map[string]json.RawMessage // the same top-level object with undecoded member values
	// per-buffer decode script: the decoder yields byBuf[i].g1 (nil = error) for exactly that buffer
	byBuf []verifBufClaims
	// component list being decoded: the window of the input handed to the container's own
	// Unmarshal method, and the container whose elements the element decoder then yields
	swWin []byte
	swSrc ISwComponents
	// every top-level encoding produced so far and the value it encodes: decoding such a
	// buffer again yields that value (round-trip contract of the codec)
	encs []verifEnc
}

type verifEnc struct {
	buf []byte
	src interface{}
}

// verifEncSrc: the value a buffer produced by the encoder stub encodes (nil if it is none)
func verifEncSrc(data []byte) interface{} {
	for _, e := range verifStub.encs {
		if len(data) > 0 && len(data) == len(e.buf) && &data[0] == &e.buf[0] {
			return e.src
		}
	}
	return nil
}

type verifBufClaims struct {
	buf []byte
	g1  *genP1
}

// verifMapLike: an encoding that the (stubbed) codec turns into a claims-set / an item other
// than null starts with the head of that item: in particular it is not the one-byte encoding
// of null or undefined, nor a tag. (The stubs attach meaning to buffers by identity, their
// content is otherwise arbitrary; code under test that looks at the first byte must see
// something consistent with the meaning.)
func verifMapLike(b []byte) {
	if ndSymbolic() && len(b) > 0 {
		ndAssume(b[0] != 0xf6 && b[0] != 0xf7 && b[0]>>5 != 6)
	}
}

// verifNoTag: an arbitrary buffer handed to the claims decoder does not start with a tag head
// (the repaired DecodeClaimsFromCBOR skips leading tag heads byte by byte; on arbitrary
// symbolic content that loop has no bound - tagged payloads are decided in C20payload instead)
func verifNoTag(b []byte) []byte {
	if ndSymbolic() && len(b) > 0 {
		ndAssume(b[0]>>5 != 6)
	}
	return b
}

// verifScript: the decoder yields g (nil = error) for exactly this buffer
func verifScript(buf []byte, g *genP1) {
	if g != nil {
		verifMapLike(buf)
	}
	verifStub.byBuf = append(verifStub.byBuf, verifBufClaims{buf: buf, g1: g})
}

// verifScriptFor: (claims to yield, scripted?) for this input buffer
func verifScriptFor(data []byte) (*genP1, bool) {
	for _, b := range verifStub.byBuf {
		if len(data) > 0 && len(data) == len(b.buf) && &data[0] == &b.buf[0] {
			return b.g1, true
		}
	}
	return nil, false
}

var verifStub verifStubState

// verifLabel names a claims object: the encoder stub returns a different (arbitrary) byte
// string per label, i.e. it is a function of WHICH claims-set is encoded.
type verifLabel struct {
	c     interface{}
	label string
}

func verifSetLabel(c IClaims, label string) {
	verifStub.labels = append(verifStub.labels, verifLabel{c, label})
}

func verifLabelOf(v interface{}) string {
	for _, l := range verifStub.labels {
		if l.c == v {
			return l.label
		}
	}
	return ""
}

// verifStubFail: the stub's nondeterministic "the library reports an error" choice
func verifStubFail(name string) bool {
	if ndBool(name) {
		verifStub.ndErr = true
		return true
	}
	return false
}

func verifInstallStubs() {
	verifStub = verifStubState{installed: true}
	if ndSymbolic() {
		em = verifEM{}
		dm = verifDM{}
	}
}

// verifSwOf: the component container member of an alias-level claims struct (nil otherwise)
func verifSwOf(v interface{}) ISwComponents {
	switch p := v.(type) {
	case *p1Claims:
		return p.SwComponents
	case *p2Claims:
		return p.SwComponents
	case *P2Claims: // profile 2 has no Marshal method of its own: the claims struct reaches the codec directly
		return p.SwComponents
	case P2Claims:
		return p.SwComponents
	}
	return nil
}

type verifEM struct{}

func (verifEM) Marshal(v interface{}) ([]byte, error) {
	if m, ok := v.(cbor.Marshaler); ok {
		// remember the outermost value: the encoder's result is a function of it
		prev := verifStub.emTop
		if prev == nil {
			verifStub.emTop = v
		}
		out, err := m.MarshalCBOR()
		verifStub.emTop = prev
		return out, err
	}
	// the library encodes a non-nil component container through the container's own method
	if sw := verifSwOf(v); sw != nil {
		if m, ok := sw.(cbor.Marshaler); ok {
			if _, err := m.MarshalCBOR(); err != nil {
				return nil, err
			}
		}
	}
	verifStub.emCalls++
	verifStub.emArg = v
	label := verifLabelOf(verifStub.emTop)
	if ndBool("em.err" + label) {
		return nil, verifErrStub
	}
	out := ndBytes("em.out" + label)
	ndAssume(len(out) > 0)
	verifMapLike(out)
	verifStub.encs = append(verifStub.encs, verifEnc{out, verifStub.emTop})
	return out, nil
}
func (verifEM) NewEncoder(w io.Writer) *cbor.Encoder { return nil }
func (verifEM) EncOptions() cbor.EncOptions          { return cbor.EncOptions{} }

type verifDM struct{}

func (verifDM) Unmarshal(data []byte, v interface{}) error {
	if u, ok := v.(cbor.Unmarshaler); ok {
		return u.UnmarshalCBOR(data)
	}
	if p, ok := v.(*[]*SwComponent); ok {
		return verifFillSwValues(p, data)
	}
	verifStub.bufs = append(verifStub.bufs, data)
	verifStub.dsts = append(verifStub.dsts, v)
	if g, scripted := verifScriptFor(data); scripted {
		if g == nil {
			return verifErrStub
		}
		switch p := v.(type) {
		case *p1Claims:
			return verifFillP1(p, g.c, data, false)
		case *p2Claims:
			return verifErrStub
		}
		rv := reflect.ValueOf(v).Elem()
		rv.Field(0).SetString("")
		return nil
	}
	if src := verifEncSrc(data); src != nil {
		// the library's own output: decodes to what was encoded
		switch p := v.(type) {
		case *p1Claims:
			if c, ok := src.(*P1Claims); ok {
				return verifFillP1(p, c, data, false)
			}
			return verifErrStub
		case *p2Claims:
			if c, ok := src.(*P2Claims); ok {
				return verifFillP2(p, c, data, false)
			}
			return verifErrStub
		}
		rv := reflect.ValueOf(v).Elem()
		if rv.Kind() == reflect.Struct && rv.NumField() == 1 && rv.Field(0).Kind() == reflect.String {
			name := ""
			if c, ok := src.(*P2Claims); ok && c.Profile != nil {
				if n, err := c.Profile.Get(); err == nil {
					name = n
				}
			}
			rv.Field(0).SetString(name)
			return nil
		}
		return verifErrStub
	}
	switch p := v.(type) {
	case *p1Claims:
		if verifStub.p1 == nil || verifStubFail("dm.err.claims") {
			return verifErrStub
		}
		return verifFillP1(p, verifStub.p1.c, data, false)
	case *p2Claims:
		if verifStub.p2 == nil || verifStubFail("dm.err.claims") {
			return verifErrStub
		}
		return verifFillP2(p, verifStub.p2.c, data, false)
	}
	// the anonymous selector struct { Profile string `cbor:"265,keyasint"` }
	if len(data) == 0 || verifStubFail("dm.err.selector") {
		return verifErrStub
	}
	rv := reflect.ValueOf(v).Elem()
	if rv.Kind() == reflect.Struct && rv.NumField() == 1 && rv.Field(0).Kind() == reflect.String {
		rv.Field(0).SetString(verifStub.selProf)
		return nil
	}
	return verifErrStub
}
func (verifDM) UnmarshalFirst(data []byte, v interface{}) ([]byte, error) { return nil, verifErrStub }
func (verifDM) Valid(data []byte) error                                  { return nil }
func (verifDM) Wellformed(data []byte) error                             { return nil }
func (verifDM) NewDecoder(r io.Reader) *cbor.Decoder                     { return nil }
func (verifDM) DecOptions() cbor.DecOptions                              { return cbor.DecOptions{} }

// verifFillP1 / verifFillP2: what a struct decoder does with a map: a key that is present sets
// its field, an absent key leaves the destination field untouched.
// verifCopyField: dst field := src field if the source field is set (typed at RUN time so
// that the harness compiles whatever Go type the field has in the tree under check; the
// branch lives in this tiny function: the engine merges paths at function return, so filling
// eleven fields costs eleven merges instead of 2^11 paths)
func verifCopyField(dst, src interface{}) {
	switch d := dst.(type) {
	case **string:
		if s := src.(**string); *s != nil {
			*d = *s
		}
	case *string:
		if s := src.(*string); *s != "" {
			*d = *s
		}
	case **int32:
		if s := src.(**int32); *s != nil {
			*d = *s
		}
	case **int64:
		if s := src.(**int64); *s != nil {
			*d = *s
		}
	case **uint16:
		if s := src.(**uint16); *s != nil {
			*d = *s
		}
	case **uint32:
		if s := src.(**uint32); *s != nil {
			*d = *s
		}
	case **uint:
		if s := src.(**uint); *s != nil {
			*d = *s
		}
	case **uint64:
		if s := src.(**uint64); *s != nil {
			*d = *s
		}
	case **[]byte:
		if s := src.(**[]byte); *s != nil {
			*d = *s
		}
	case *[]byte:
		if s := src.(*[]byte); *s != nil {
			*d = *s
		}
	case **eat.UEID:
		if s := src.(**eat.UEID); *s != nil {
			*d = *s
		}
	case **eat.Nonce:
		if s := src.(**eat.Nonce); *s != nil {
			*d = *s
		}
	case **eat.Profile:
		if s := src.(**eat.Profile); *s != nil {
			*d = *s
		}
	case *ISwComponents:
		if s := src.(*ISwComponents); *s != nil {
			*d = *s
		}
	default:
		panic(verifAbort{"decoder stub: field type not handled"})
	}
}

// verifFillSw: the component-list member. Both codecs hand a WINDOW OF THE INPUT (not a copy)
// to the destination container's own Unmarshal method, which in turn asks the codec for the
// elements; the stub follows that protocol so that the container's method runs for real.
// verifJSONNullSw: the JSON decoder stub may see `"psa-software-components": null` (C05 only)
var verifJSONNullSw bool

func verifFillSw(dst, src *ISwComponents, data []byte, isJSON bool) error {
	if *src == nil {
		// key absent: destination untouched; or (JSON, C05) the member is `null`, which
		// encoding/json stores into an interface-typed field as a nil interface
		if isJSON && verifJSONNullSw && ndBool("json.sw.member.is.null") {
			*dst = nil
		}
		return nil
	}
	if *dst == nil {
		return verifErrStub // a list cannot be decoded into a nil interface
	}
	win := data
	if len(data) >= 2 {
		win = data[1:] // a proper window wherever the input has room for one
	}
	prevW, prevS := verifStub.swWin, verifStub.swSrc
	verifStub.swWin, verifStub.swSrc = win, *src
	var err error
	if isJSON {
		if u, ok := (*dst).(json.Unmarshaler); ok {
			err = u.UnmarshalJSON(verifStub.swWin)
		} else {
			err = verifErrStub
		}
	} else {
		if u, ok := (*dst).(cbor.Unmarshaler); ok {
			err = u.UnmarshalCBOR(verifStub.swWin)
		} else {
			err = verifErrStub
		}
	}
	verifStub.swWin, verifStub.swSrc = prevW, prevS
	return err
}

// verifFillSwValues: the element decoder: yields the scripted container's elements for the
// window announced by verifFillSw (a fresh slice: decoders allocate), an error otherwise
func verifFillSwValues(p *[]*SwComponent, data []byte) error {
	if verifStub.swSrc == nil || len(data) == 0 || len(verifStub.swWin) != len(data) || &data[0] != &verifStub.swWin[0] {
		return verifErrStub
	}
	src, ok := verifStub.swSrc.(*SwComponents[*SwComponent])
	if !ok {
		return verifErrStub
	}
	out := make([]*SwComponent, 0, len(src.values))
	out = append(out, src.values...)
	if len(out) == 0 {
		out = nil
	}
	*p = out
	return nil
}

func verifFillP1(p *p1Claims, src *P1Claims, data []byte, isJSON bool) error {
	verifCopyField(&p.Profile, &src.Profile)
	verifCopyField(&p.ClientID, &src.ClientID)
	verifCopyField(&p.SecurityLifeCycle, &src.SecurityLifeCycle)
	verifCopyField(&p.ImplID, &src.ImplID)
	verifCopyField(&p.BootSeed, &src.BootSeed)
	verifCopyField(&p.CertificationReference, &src.CertificationReference)
	verifCopyField(&p.NoSwMeasurements, &src.NoSwMeasurements)
	verifCopyField(&p.Nonce, &src.Nonce)
	verifCopyField(&p.InstID, &src.InstID)
	verifCopyField(&p.VSI, &src.VSI)
	return verifFillSw(&p.SwComponents, &src.SwComponents, data, isJSON)
}

func verifFillP2(p *p2Claims, src *P2Claims, data []byte, isJSON bool) error {
	verifCopyField(&p.Profile, &src.Profile)
	verifCopyField(&p.ClientID, &src.ClientID)
	verifCopyField(&p.SecurityLifeCycle, &src.SecurityLifeCycle)
	verifCopyField(&p.ImplID, &src.ImplID)
	verifCopyField(&p.BootSeed, &src.BootSeed)
	verifCopyField(&p.CertificationReference, &src.CertificationReference)
	verifCopyField(&p.Nonce, &src.Nonce)
	verifCopyField(&p.InstID, &src.InstID)
	verifCopyField(&p.VSI, &src.VSI)
	return verifFillSw(&p.SwComponents, &src.SwComponents, data, isJSON)
}

// verifJSONMarshal is what the engine runs for encoding/json.Marshal.
func verifJSONMarshal(v interface{}) ([]byte, error) {
	if verifL4.active {
		return l4marshal(v)
	}
	if m, ok := v.(json.Marshaler); ok {
		return m.MarshalJSON()
	}
	if sw := verifSwOf(v); sw != nil {
		if m, ok := sw.(json.Marshaler); ok {
			if _, err := m.MarshalJSON(); err != nil {
				return nil, err
			}
		}
	}
	verifStub.jsonCalls++
	verifStub.jsonArg = v
	if verifStubFail("json.err") {
		return nil, verifErrStub
	}
	out := ndBytes("json.out")
	ndAssume(len(out) > 0)
	return out, nil
}

// verifJSONUnmarshal is what the engine runs for encoding/json.Unmarshal.
func verifJSONUnmarshal(data []byte, v interface{}) error {
	if verifL4.active {
		return l4unmarshal(data, v)
	}
	if u, ok := v.(json.Unmarshaler); ok {
		return u.UnmarshalJSON(data)
	}
	verifStub.bufs = append(verifStub.bufs, data)
	verifStub.dsts = append(verifStub.dsts, v)
	switch p := v.(type) {
	case *map[string]interface{}:
		if verifStub.jsonMap == nil || verifStubFail("json.err.map") {
			return verifErrStub
		}
		*p = verifStub.jsonMap
		return nil
	case *map[string]json.RawMessage:
		if verifStub.jsonRaw == nil || verifStubFail("json.err.map") {
			return verifErrStub
		}
		*p = verifStub.jsonRaw
		return nil
	case *p1Claims:
		if verifStub.p1 == nil || verifStubFail("json.err.claims") {
			return verifErrStub
		}
		return verifFillP1(p, verifStub.p1.c, data, true)
	case *p2Claims:
		if verifStub.p2 == nil || verifStubFail("json.err.claims") {
			return verifErrStub
		}
		return verifFillP2(p, verifStub.p2.c, data, true)
	case *[]*SwComponent:
		return verifFillSwValues(p, data)
	}
	return verifErrStub
}

// ---------- native counterparts: real bytes for a generated claims-set ----------

// verifEncodeReal returns the real CBOR / JSON encoding of a generated claims-set, or aborts
// the replay case (assume-failure) when the libraries cannot express it.
func verifRealCBOR(c IClaims) []byte {
	b, err := EncodeClaimsToCBOR(c)
	if err != nil {
		panic(verifAbort{"real CBOR encoding of the model's claims-set failed: " + err.Error()})
	}
	return b
}

func verifRealJSON(c IClaims) []byte {
	b, err := EncodeClaimsToJSON(c)
	if err != nil {
		panic(verifAbort{"real JSON encoding of the model's claims-set failed: " + err.Error()})
	}
	return b
}
