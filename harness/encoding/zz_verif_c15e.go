//go:build verif

package encoding

// C15 (e): the embedding-aware serialisers / populate helpers over a family of struct shapes,
// CBOR and JSON; C05 part 3: the hand-written JSON helpers on enumerated documents.

import (
	"encoding/json"
	"strconv"

	cbor "github.com/fxamacker/cbor/v2"
)

var _ = verifReg("C15ser", VerifC15ser)
var _ = verifReg("C15json", VerifC15json)
var _ = verifReg("C05json", VerifC05json)

// ---------- the struct family (claims convention: pointer / scalar / embedded) ----------

type VFlat struct {
	A *int    `cbor:"1,keyasint" json:"a"`
	B *string `cbor:"2,keyasint,omitempty" json:"b,omitempty"`
	C *int    `cbor:"-" json:"-"`
	D int     // untagged: never serialised
	E *int    `cbor:"-5,keyasint,omitempty" json:"e,omitempty"`
	M *int    `cbor:"3,keyasint" json:"m"`
}

type VOuter struct {
	VFlat
	F *int `cbor:"7,keyasint" json:"f"`
}

type VOuter2 struct {
	VOuter
	G *int `cbor:"8,keyasint,omitempty" json:"g,omitempty"`
}

// every field optional: the all-empty struct serialises to an empty map / object
type VAllOpt struct {
	B *string `cbor:"2,keyasint,omitempty" json:"b,omitempty"`
	E *int    `cbor:"-5,keyasint,omitempty" json:"e,omitempty"`
}

type VThing interface{ thing() }

type VImpl struct {
	H *int `cbor:"9,keyasint" json:"h"`
}

func (*VImpl) thing() {}

type VWithIface struct {
	VThing
	I *int `cbor:"10,keyasint,omitempty" json:"i,omitempty"`
}

// an embedded interface whose implementation has VALUE receivers: the source may hold the
// struct by value, the destination holds a pointer to it
type VThingV interface{ thingv() }

type VImplV struct {
	H *int `cbor:"9,keyasint" json:"h"`
}

func (VImplV) thingv() {}

type VWithIfaceV struct {
	VThingV
	I *int `cbor:"10,keyasint,omitempty" json:"i,omitempty"`
}

// vvals: the symbolic content of one instance of the family
type vvals struct {
	has  [8]bool // A B E M F G H I
	ints [8]int
	b    string
	impl bool // VWithIface holds a *VImpl (else nil interface)
}

var vnames = [8]string{"a", "b", "e", "m", "f", "g", "h", "i"}
var vkeys = [8]int{1, 2, -5, 3, 7, 8, 9, 10}
var voptional = [8]bool{false, true, true, false, false, true, false, true}

func genVvals() *vvals {
	v := &vvals{}
	for i := 0; i < 8; i++ {
		v.has[i] = ndBool(ndName("has", i))
		v.ints[i] = 7 + i
	}
	// field A takes a few representative values (both CBOR head widths, zero, a negative)
	v.ints[0] = [4]int{0, 7, -3, 300}[ndConcrete(verifChoice("val.a", 4))]
	v.b = [2]string{"", "hey"}[ndConcrete(verifChoice("bval", 2))]
	// the optional integer E may be present with the value zero (present != non-empty)
	v.ints[2] = [2]int{9, 0}[ndConcrete(verifChoice("val.e", 2))]
	v.impl = ndBool("impl")
	return v
}

func (v *vvals) ptr(i int) *int {
	if !v.has[i] {
		return nil
	}
	x := v.ints[i]
	return &x
}

func (v *vvals) flat() VFlat {
	f := VFlat{A: v.ptr(0), E: v.ptr(2), M: v.ptr(3), D: 5}
	if v.has[1] {
		s := v.b
		f.B = &s
	}
	return f
}

// build returns a pointer to an instance of shape k and the list of (field index) the shape has, in emission order
func (v *vvals) build(k int) (interface{}, []int) {
	switch k {
	case 0:
		f := v.flat()
		return &f, []int{0, 1, 2, 3}
	case 1:
		o := VOuter{VFlat: v.flat(), F: v.ptr(4)}
		return &o, []int{4, 0, 1, 2, 3}
	case 2:
		o := VOuter2{VOuter: VOuter{VFlat: v.flat(), F: v.ptr(4)}, G: v.ptr(5)}
		return &o, []int{5, 4, 0, 1, 2, 3}
	case 4:
		f := v.flat()
		return &VAllOpt{B: f.B, E: f.E}, []int{1, 2}
	case 5:
		w := VWithIfaceV{I: v.ptr(7)}
		if v.impl {
			w.VThingV = VImplV{H: v.ptr(6)} // held BY VALUE
			return &w, []int{7, 6}
		}
		return &w, []int{7}
	}
	w := VWithIface{I: v.ptr(7)}
	if v.impl {
		w.VThing = &VImpl{H: v.ptr(6)}
		return &w, []int{7, 6}
	}
	return &w, []int{7}
}

func vfresh(k int, impl bool) interface{} {
	switch k {
	case 0:
		return &VFlat{}
	case 1:
		return &VOuter{}
	case 2:
		return &VOuter2{}
	case 4:
		return &VAllOpt{}
	case 5:
		if impl {
			return &VWithIfaceV{VThingV: &VImplV{}}
		}
		return &VWithIfaceV{}
	}
	if impl {
		return &VWithIface{VThing: &VImpl{}}
	}
	return &VWithIface{}
}

// vread: the value of field i of an instance of shape k (nil = absent)
func vread(k int, p interface{}, i int) (*int, *string) {
	var f *VFlat
	switch x := p.(type) {
	case *VFlat:
		f = x
	case *VOuter:
		f = &x.VFlat
		if i == 4 {
			return x.F, nil
		}
	case *VOuter2:
		f = &x.VFlat
		if i == 4 {
			return x.F, nil
		}
		if i == 5 {
			return x.G, nil
		}
	case *VAllOpt:
		if i == 1 {
			return nil, x.B
		}
		return x.E, nil
	case *VWithIfaceV:
		if i == 7 {
			return x.I, nil
		}
		if i == 6 {
			switch im := x.VThingV.(type) {
			case *VImplV:
				return im.H, nil
			case VImplV:
				return im.H, nil
			}
		}
		return nil, nil
	case *VWithIface:
		if i == 7 {
			return x.I, nil
		}
		if im, ok := x.VThing.(*VImpl); ok && i == 6 {
			return im.H, nil
		}
		return nil, nil
	}
	switch i {
	case 0:
		return f.A, nil
	case 1:
		return nil, f.B
	case 2:
		return f.E, nil
	case 3:
		return f.M, nil
	}
	return nil, nil
}

// ---------- exact element codec for the family's leaf types ----------

type vEM struct{}

func (vEM) Marshal(x interface{}) ([]byte, error) {
	switch p := x.(type) {
	case int:
		return verifEncInt(p), nil
	case *int:
		if p == nil {
			return []byte{0xf6}, nil
		}
		return verifEncInt(*p), nil
	case *string:
		if p == nil {
			return []byte{0xf6}, nil
		}
		return append([]byte{0x60 | byte(len(*p))}, *p...), nil
	}
	return nil, verifErrStub
}
func (vEM) NewEncoder(w interface{ Write([]byte) (int, error) }) *cbor.Encoder { return nil }

type vDM struct{ verifExactDM }

func (vDM) Unmarshal(data []byte, x interface{}) error {
	if len(data) == 1 && data[0] == 0xf6 {
		switch p := x.(type) {
		case **int:
			*p = nil
			return nil
		case **string:
			*p = nil
			return nil
		}
		return verifErrStub
	}
	major, ai, val, n, ok := verifReadHead(data)
	if !ok {
		return verifErrStub
	}
	switch p := x.(type) {
	case **int:
		if major > 1 || n != len(data) {
			return verifErrStub
		}
		v := int(val)
		if major == 1 {
			v = -1 - int(val)
		}
		*p = &v
		return nil
	case **string:
		if major != 3 || ai >= 24 || len(data) != 1+int(ai) {
			return verifErrStub
		}
		s := string(data[1:])
		*p = &s
		return nil
	}
	return verifErrStub
}

func vmodes() (cbor.EncMode, cbor.DecMode) {
	if ndSymbolic() {
		return verifVEM{}, vDM{}
	}
	return verifRealModes()
}

// verifVEM adapts vEM to the full cbor.EncMode interface
type verifVEM struct{ verifExactEM }

func (verifVEM) Marshal(x interface{}) ([]byte, error) { return vEM{}.Marshal(x) }

// ---------- (e) CBOR ----------

func VerifC15ser() {
	k := ndParam("shape", 0)
	v := genVvals()
	src, order := v.build(k)
	em, dm := vmodes()
	var out []byte
	var err error
	if ndTry(func() { out, err = SerializeStructToCBOR(em, src) }) {
		return
	}
	ndAssert("ser-cbor-ok", err == nil)
	if err != nil {
		return
	}
	// expected wire: head(5, n) then, in emission order (own fields first, then embedded ones),
	// every field that is not omitted; a nil pointer without omitempty is null
	n := 0
	var body []byte
	for _, i := range order {
		if !v.has[i] && voptional[i] {
			continue
		}
		n++
		body = append(body, verifEncInt(vkeys[i])...)
		switch {
		case !v.has[i]:
			body = append(body, 0xf6)
		case i == 1:
			body = append(body, 0x60|byte(len(v.b)))
			body = append(body, v.b...)
		default:
			body = append(body, verifEncInt(v.ints[i])...)
		}
	}
	want := append(verifHead(5, uint64(n)), body...)
	ndAssert("ser-cbor-one-map-union-order-omitempty-dash", verifSameBytes(out, want))
	dst := vfresh(k, v.impl)
	var perr error
	if ndTry(func() { perr = PopulateStructFromCBOR(dm, out, dst) }) {
		return
	}
	ndAssert("ser-cbor-populate-own-output", perr == nil)
	if perr == nil {
		same := true
		for _, i := range order {
			ip, sp := vread(k, dst, i)
			if i == 1 {
				same = same && (sp != nil) == v.has[1] && (sp == nil || *sp == v.b)
			} else {
				same = same && (ip != nil) == v.has[i] && (ip == nil || *ip == v.ints[i])
			}
		}
		ndAssert("ser-cbor-roundtrip-reproduces-the-value", same)
	}
	// a missing non-optional key is an error: drop the first mandatory key from the map
	if ndBool("drop.mandatory") {
		sf := newStructFieldsCBOR()
		if sf.FromCBOR(dm, out) == nil {
			victim := -1
			for _, i := range order {
				if !voptional[i] {
					victim = vkeys[i]
					break
				}
			}
			if victim != -1 {
				sf.Delete(victim)
				short, terr := sf.ToCBOR(em)
				if terr == nil {
					d2 := vfresh(k, v.impl)
					ndAssert("ser-cbor-missing-mandatory-key-is-error", PopulateStructFromCBOR(dm, short, d2) != nil)
				}
			}
		}
	}
	if k == 4 {
		ndCover("ser-cbor-all-empty", n == 0)
	}
	ndCover("ser-cbor-full", n == len(order))
}

// ---------- (e) JSON ----------

// contract for encoding/json on the family's leaf types and member names (symbolic mode; the
// engine routes json.Marshal / json.Unmarshal of package encoding here)
func verifJSONMarshal(x interface{}) ([]byte, error) {
	switch p := x.(type) {
	case string:
		return []byte(`"` + p + `"`), nil
	case int:
		return []byte(strconv.Itoa(p)), nil
	case *int:
		if p == nil {
			return []byte("null"), nil
		}
		return []byte(strconv.Itoa(*p)), nil
	case *string:
		if p == nil {
			return []byte("null"), nil
		}
		return []byte(`"` + *p + `"`), nil
	}
	return nil, verifErrStub
}

func verifJSONUnmarshal(data []byte, x interface{}) error {
	switch p := x.(type) {
	case *map[string]json.RawMessage:
		m, ok := ndJSONObject(data)
		if !ok {
			return verifErrStub
		}
		*p = m
		return nil
	case **int:
		s := string(data)
		if s == "null" {
			*p = nil
			return nil
		}
		v, err := strconv.Atoi(s)
		if err != nil {
			return verifErrStub
		}
		*p = &v
		return nil
	case **string:
		s := string(data)
		if s == "null" {
			*p = nil
			return nil
		}
		if len(s) < 2 || s[0] != '"' || s[len(s)-1] != '"' {
			return verifErrStub
		}
		t := s[1 : len(s)-1]
		*p = &t
		return nil
	}
	return verifErrStub
}

// ndJSONObject: the real json.Unmarshal into map[string]json.RawMessage (concrete input only)
func ndJSONObject(data []byte) (map[string]json.RawMessage, bool) {
	var m map[string]json.RawMessage
	if err := json.Unmarshal(data, &m); err != nil || m == nil {
		return nil, false
	}
	return m, true
}

func VerifC15json() {
	k := ndParam("shape", 0)
	v := genVvals()
	src, order := v.build(k)
	var out []byte
	var err error
	if ndTry(func() { out, err = SerializeStructToJSON(src) }) {
		return
	}
	ndAssert("ser-json-ok", err == nil)
	if err != nil {
		return
	}
	want := "{"
	first := true
	n := 0
	for _, i := range order {
		if !v.has[i] && voptional[i] {
			continue
		}
		n++
		if !first {
			want += ","
		}
		first = false
		want += `"` + vnames[i] + `":`
		switch {
		case !v.has[i]:
			want += "null"
		case i == 1:
			want += `"` + v.b + `"`
		default:
			want += strconv.Itoa(v.ints[i])
		}
	}
	want += "}"
	ndAssert("ser-json-one-object-union-order-omitempty-dash", string(out) == want)
	dst := vfresh(k, v.impl)
	var perr error
	if ndTry(func() { perr = PopulateStructFromJSON(out, dst) }) {
		return
	}
	ndAssert("ser-json-populate-own-output", perr == nil)
	if perr == nil {
		same := true
		for _, i := range order {
			ip, sp := vread(k, dst, i)
			if i == 1 {
				same = same && (sp != nil) == v.has[1] && (sp == nil || *sp == v.b)
			} else {
				same = same && (ip != nil) == v.has[i] && (ip == nil || *ip == v.ints[i])
			}
		}
		ndAssert("ser-json-roundtrip-reproduces-the-value", same)
	}
	if k == 4 {
		ndCover("ser-json-all-empty", n == 0)
	}
	ndCover("ser-json-full", n == len(order))
}

// ---------- C05 part 3: JSON helpers on enumerated documents ----------

var c05names = [4]string{"a", "b", "m", "x"}
var c05values = [7]string{`1`, `"x"`, `null`, `[1,[2]]`, `{"k":{"q":1}}`, `tru`, `"unterminated`}

// an object with 0..2 arbitrary members (names may repeat), or one name repeated three times,
// optionally truncated
func c05doc() []byte {
	if ndParam("triple", 0) == 1 {
		name := c05names[ndConcrete(verifChoice("name", 4))]
		doc := "{"
		for i := 0; i < 3; i++ {
			if i > 0 {
				doc += ","
			}
			doc += `"` + name + `":` + c05values[ndConcrete(verifChoice(ndName("value", i), 3))]
		}
		return []byte(doc + "}")
	}
	n := ndConcrete(verifChoice("members", 3))
	doc := "{"
	for i := 0; i < n; i++ {
		if i > 0 {
			doc += ","
		}
		doc += `"` + c05names[ndConcrete(verifChoice(ndName("name", i), 4))] + `":` + c05values[ndConcrete(verifChoice(ndName("value", i), 7))]
	}
	doc += "}"
	cut := ndConcrete(verifChoice("cut", 3))
	switch cut {
	case 1:
		doc = doc[:len(doc)-1]
	case 2:
		doc = doc[:len(doc)/2]
	}
	return []byte(doc)
}

func VerifC05json() {
	data := c05doc()
	// implicit obligation: no instruction of the repo's own code panics
	var err error
	switch ndParam("dst", 0) {
	case 1:
		err = PopulateStructFromJSON(data, &VAllOpt{})
	case 2:
		err = PopulateStructFromJSON(data, &VOuter{})
	default:
		err = PopulateStructFromJSON(data, &VFlat{})
	}
	if ndParam("expectpop", 1) == 1 {
		ndCover("c05-json-populated", err == nil)
	}
	ndCover("c05-json-rejected", err != nil)
}
