//go:build verif

package encoding

// Contract stubs for the element codec (fxamacker/cbor EncMode / DecMode), written as
// ordinary Go so that they are part of the harness source, visible and replayable.
// In symbolic mode the harness passes these to the functions under test; natively the REAL
// library modes are passed instead, so a counterexample is only reported if the real
// library reproduces it.

import (
	"errors"
	"io"

	cbor "github.com/fxamacker/cbor/v2"
)

var verifErrStub = errors.New("stub: element codec error")

// ---------- exact CBOR head writer / reader for integers (RFC 8949 §3) ----------

func verifHead(major byte, v uint64) []byte {
	m := major << 5
	switch {
	case v < 24:
		return []byte{m | byte(v)}
	case v < 1<<8:
		return []byte{m | 24, byte(v)}
	case v < 1<<16:
		return []byte{m | 25, byte(v >> 8), byte(v)}
	case v < 1<<32:
		return []byte{m | 26, byte(v >> 24), byte(v >> 16), byte(v >> 8), byte(v)}
	}
	return []byte{m | 27, byte(v >> 56), byte(v >> 48), byte(v >> 40), byte(v >> 32), byte(v >> 24), byte(v >> 16), byte(v >> 8), byte(v)}
}

func verifEncInt(k int) []byte {
	if k >= 0 {
		return verifHead(0, uint64(k))
	}
	return verifHead(1, uint64(-1-k))
}

// verifReadHead parses one CBOR head: ok=false if truncated or reserved additional info.
func verifReadHead(b []byte) (major byte, ai byte, v uint64, n int, ok bool) {
	if len(b) == 0 {
		return 0, 0, 0, 0, false
	}
	major = b[0] >> 5
	ai = b[0] & 0x1f
	switch {
	case ai < 24:
		return major, ai, uint64(ai), 1, true
	case ai == 24:
		if len(b) < 2 {
			return major, ai, 0, 0, false
		}
		return major, ai, uint64(b[1]), 2, true
	case ai == 25:
		if len(b) < 3 {
			return major, ai, 0, 0, false
		}
		return major, ai, uint64(b[1])<<8 | uint64(b[2]), 3, true
	case ai == 26:
		if len(b) < 5 {
			return major, ai, 0, 0, false
		}
		return major, ai, uint64(b[1])<<24 | uint64(b[2])<<16 | uint64(b[3])<<8 | uint64(b[4]), 5, true
	case ai == 27:
		if len(b) < 9 {
			return major, ai, 0, 0, false
		}
		return major, ai, uint64(b[1])<<56 | uint64(b[2])<<48 | uint64(b[3])<<40 | uint64(b[4])<<32 | uint64(b[5])<<24 | uint64(b[6])<<16 | uint64(b[7])<<8 | uint64(b[8]), 9, true
	case ai == 31:
		return major, ai, 0, 1, true
	}
	return major, ai, 0, 0, false
}

// ---------- nondeterministic element decoder (contract L0 for FromCBOR) ----------

// verifNdDM: UnmarshalFirst either fails or consumes k >= 1 bytes (k <= len(data)) and fills
// the destination with an arbitrary value of its type (RawMessage: a copy of the consumed
// bytes). Every call's result is logged so the harness can state post-conditions.
type verifNdDM struct{}

var (
	verifCalls   int
	verifKeys    []int
	verifVals    [][]byte
	verifStubErr bool
)

func verifResetStub() {
	verifCalls = 0
	verifKeys = nil
	verifVals = nil
	verifStubErr = false
}

func (verifNdDM) UnmarshalFirst(data []byte, v interface{}) ([]byte, error) {
	i := verifCalls
	verifCalls++
	if len(data) == 0 || ndBool(ndName("stub.err", i)) {
		verifStubErr = true
		if _, isKey := v.(*int); isKey && len(data) > 0 && ndBool(ndName("stub.err.type", i)) {
			// a well-formed item that does not fit the destination (e.g. a text label where an
			// integer is wanted): the library reports this class with its own error type
			return nil, &cbor.UnmarshalTypeError{CBORType: "item", GoType: "int"}
		}
		return nil, verifErrStub
	}
	k := ndInt(ndName("stub.consumed", i))
	ndAssume(k >= 1 && k <= len(data))
	k = ndConcrete(k)
	switch p := v.(type) {
	case *int:
		*p = ndInt(ndName("stub.key", i))
		verifKeys = append(verifKeys, *p)
	case *cbor.RawMessage:
		*p = cbor.RawMessage(ndCopyBytes(data[:k]))
		verifVals = append(verifVals, *p)
	default:
		return nil, verifErrStub
	}
	return data[k:], nil
}

func (verifNdDM) Unmarshal(data []byte, v interface{}) error { return verifErrStub }
func (verifNdDM) Valid(data []byte) error                    { return nil }
func (verifNdDM) Wellformed(data []byte) error               { return nil }
func (verifNdDM) NewDecoder(r io.Reader) *cbor.Decoder       { return nil }
func (verifNdDM) DecOptions() cbor.DecOptions                { return cbor.DecOptions{} }

// ---------- exact element codec for the item family {int keys; one-head values} ----------

// verifExactDM decodes exactly like the library for: integer keys (major 0/1, any head width,
// value within int) and values that are a single head (major 0,1,7 with ai < 24) or a byte /
// text string with a one-byte head (major 2,3 with ai < 24). Anything else: error.
type verifExactDM struct{}

func (verifExactDM) UnmarshalFirst(data []byte, v interface{}) ([]byte, error) {
	major, ai, val, n, ok := verifReadHead(data)
	if !ok || ai == 31 {
		return nil, verifErrStub
	}
	switch p := v.(type) {
	case *int:
		if major > 1 || val > 1<<62 {
			return nil, verifErrStub
		}
		if major == 0 {
			*p = int(val)
		} else {
			*p = -1 - int(val)
		}
		return data[n:], nil
	case *cbor.RawMessage:
		l := n
		switch major {
		case 0, 1:
		case 7:
			if ai >= 24 {
				return nil, verifErrStub
			}
		case 2, 3:
			if ai >= 24 {
				return nil, verifErrStub
			}
			l = 1 + int(ai)
		default:
			return nil, verifErrStub
		}
		if len(data) < l {
			return nil, verifErrStub
		}
		*p = cbor.RawMessage(ndCopyBytes(data[:l]))
		return data[l:], nil
	}
	return nil, verifErrStub
}

func (verifExactDM) Unmarshal(data []byte, v interface{}) error { return verifErrStub }
func (verifExactDM) Valid(data []byte) error                    { return nil }
func (verifExactDM) Wellformed(data []byte) error               { return nil }
func (verifExactDM) NewDecoder(r io.Reader) *cbor.Decoder       { return nil }
func (verifExactDM) DecOptions() cbor.DecOptions                { return cbor.DecOptions{} }

// verifExactEM: exact for int (canonical shortest head); everything else is an error.
type verifExactEM struct{}

func (verifExactEM) Marshal(v interface{}) ([]byte, error) {
	switch x := v.(type) {
	case int:
		return verifEncInt(x), nil
	}
	return nil, verifErrStub
}
func (verifExactEM) NewEncoder(w io.Writer) *cbor.Encoder { return nil }
func (verifExactEM) EncOptions() cbor.EncOptions          { return cbor.EncOptions{} }

// real library modes (native replay)
func verifRealModes() (cbor.EncMode, cbor.DecMode) {
	em, _ := cbor.EncOptions{IndefLength: cbor.IndefLengthForbidden, TimeTag: cbor.EncTagRequired}.EncMode()
	dm, _ := cbor.DecOptions{IndefLength: cbor.IndefLengthForbidden}.DecMode()
	return em, dm
}
