//go:build verif

package encoding

// C15 (hand-rolled map header reader/writer, ordered field map), C05 part 2 (no panic in the
// hand-written parsers), C06 (allocation / termination of FromCBOR).

import (
	"time"
	cbor "github.com/fxamacker/cbor/v2"
)

var _ = verifReg("C15ai", VerifC15ai)
var _ = verifReg("C15from", VerifC15from)
var _ = verifReg("C15rt", VerifC15rt)
var _ = verifReg("C15hdr", VerifC15hdr)
var _ = verifReg("C15crud", VerifC15crud)
var _ = verifReg("C05from", VerifC05from)
var _ = verifReg("C06from", VerifC06from)

// ---------- (a) processAdditionalInfo vs RFC 8949 §3 ----------

func VerifC15ai() {
	ai := ndUint8("ai")
	ndAssume(ai < 32)
	data := ndBytes("data")
	var n int
	var rest []byte
	var err error
	if ndTry(func() { n, rest, err = processAdditionalInfo(ai, data) }) {
		return // panics are C05's subject
	}
	need := 0
	switch ai {
	case 24:
		need = 1
	case 25:
		need = 2
	case 26:
		need = 4
	case 27:
		need = 8
	}
	switch {
	case ai < 24:
		ndAssert("ai-direct", err == nil && n == int(ai) && verifSameSlice(rest, data, 0))
	case ai <= 26:
		if len(data) < need {
			ndAssert("ai-short-input-is-error", err != nil)
			ndCover("ai-26-short", ai == 26)
			return
		}
		var want uint64
		for i := 0; i < need; i++ {
			want = want<<8 | uint64(data[i])
		}
		ndAssert("ai-following-bytes", err == nil && uint64(n) == want && verifSameSlice(rest, data, need))
	case ai == 27:
		// the 8-byte form is rejected by design: no verdict beyond "does not panic"
	case ai < 31:
		ndAssert("ai-reserved-is-error", err != nil)
	default:
		ndAssert("ai-indefinite", err == nil && n == 0 && verifSameSlice(rest, data, 0))
	}
	ndCover("ai-24-ok", ai == 24 && err == nil)
	ndCover("ai-25-ok-big", ai == 25 && err == nil && n > 255)
}

// verifSameSlice: rest is exactly data[k:]
func verifSameSlice(rest, data []byte, k int) bool {
	return len(rest) == len(data)-k && ndBytesEqual(rest, data[k:])
}

// ---------- (c) FromCBOR over an arbitrary buffer with a nondeterministic element decoder ----------

// specMapHead: independent reading of the optional single tag head and the map head.
// verdict=false where the property gives none (tag head with reserved/indefinite/8-byte info).
func specMapHead(data []byte) (okHead bool, n uint64, indef bool, hdr int, verdict bool) {
	major, ai, v, k, ok := verifReadHead(data)
	if !ok {
		return false, 0, false, 0, true
	}
	off := 0
	if major == 6 {
		if ai >= 27 {
			return false, 0, false, 0, false
		}
		off = k
		major, ai, v, k, ok = verifReadHead(data[off:])
		if !ok {
			return false, 0, false, 0, true
		}
	}
	if major != 5 {
		return false, 0, false, 0, true
	}
	if ai == 27 {
		return false, 0, false, 0, true // rejected by design
	}
	return true, v, ai == 31, off + k, true
}

type fromResult struct {
	o        *structFieldsCBOR
	err      error
	panicked bool
	data     []byte
}

func verifRunFrom(maxLen int) fromResult {
	data := ndBytes("data")
	ndAssume(len(data) <= maxLen)
	ndConcrete(len(data))
	var dm cbor.DecMode = verifNdDM{}
	if !ndSymbolic() {
		_, dm = verifRealModes()
	}
	verifResetStub()
	r := fromResult{o: newStructFieldsCBOR(), data: data}
	r.panicked = ndTry(func() { r.err = r.o.FromCBOR(dm, data) })
	return r
}

func verifDistinct(ks []int) bool {
	for i := 0; i < len(ks); i++ {
		for j := i + 1; j < len(ks); j++ {
			if ks[i] == ks[j] {
				return false
			}
		}
	}
	return true
}

func VerifC15from() {
	r := verifRunFrom(ndParam("maxlen", 10))
	if r.panicked {
		return
	}
	okHead, n, indef, _, verdict := specMapHead(r.data)
	if !verdict {
		return
	}
	ndAssert("from-accept-implies-map-head", r.err != nil || okHead)
	ndAssert("from-empty-definite-map-accepted", !(okHead && !indef && n == 0) || (r.err == nil && len(r.o.Keys) == 0 && len(r.o.Fields) == 0))
	ndCover("from-empty-map", okHead && !indef && n == 0)
	if !ndSymbolic() {
		return // the stub log below exists only in the symbolic run
	}
	if r.err == nil {
		ndAssert("from-keys-fields-agree", len(r.o.Keys) == len(r.o.Fields))
		if !indef {
			ndAssert("from-definite-count", uint64(len(r.o.Keys)) == n && verifCalls == 2*int(n) && !verifStubErr)
		}
		ndAssert("from-duplicate-key-is-error", verifDistinct(verifKeys))
		same := len(verifKeys) == len(r.o.Keys) && len(verifVals) == len(r.o.Keys)
		for i := 0; same && i < len(r.o.Keys); i++ {
			v, has := r.o.Fields[r.o.Keys[i]]
			same = r.o.Keys[i] == verifKeys[i] && has && ndBytesEqual(v, verifVals[i])
		}
		ndAssert("from-insertion-order-and-values", same)
	}
	ndCoverSym("from-two-entries", r.err == nil && len(r.o.Keys) == 2)
	ndCoverSym("from-dup-rejected", r.err != nil && len(verifKeys) == 2 && verifKeys[0] == verifKeys[1])
}

func VerifC05from() {
	data := ndBytes("data")
	ndAssume(len(data) <= ndParam("maxlen", 10))
	ndConcrete(len(data))
	var dm cbor.DecMode = verifNdDM{}
	if !ndSymbolic() {
		_, dm = verifRealModes()
	}
	verifResetStub()
	o := newStructFieldsCBOR()
	_ = o.FromCBOR(dm, data) // implicit obligation: no instruction of own code panics
	ndCoverSym("c05-from-ok", len(o.Keys) == 1)
}

func VerifC06from() {
	data := ndBytes("data")
	ndAssume(len(data) <= ndParam("maxlen", 10))
	ndConcrete(len(data))
	var dm cbor.DecMode = verifNdDM{}
	if !ndSymbolic() {
		_, dm = verifRealModes()
	}
	verifResetStub()
	if ndParam("hdr32", 0) == 1 {
		// the property's own hostile class: a header declaring >= 2^24 entries, hardly any data
		ndAssume(len(data) >= 5 && data[0] == 0xba && data[1] != 0)
	}
	o := newStructFieldsCBOR()
	if !ndSymbolic() {
		// natively: the call must return within the property's 5 s and within its memory bound
		// (measured around the call; this worker runs nothing else)
		a0 := ndAllocMark()
		done := make(chan bool, 1)
		go func() {
			defer func() { _ = recover(); done <- true }()
			_ = o.FromCBOR(dm, data)
		}()
		returned := false
		select {
		case <-done:
			returned = true
		case <-time.After(5 * time.Second):
		}
		used := ndAllocSince(a0)
		within := returned && used <= 1<<20+1024*uint64(len(data))
		ndAssert("c06-alloc-proportional-to-input", within)
		ndAssert("c06-iterations-proportional-to-input", within)
		ndCover("c06-from-ran", returned)
		return
	}
	a0 := ndAllocMark()
	if ndTry(func() { _ = o.FromCBOR(dm, data) }) {
		return
	}
	used := ndAllocSince(a0)
	// the property's own bound: a fixed constant plus a fixed multiple of the input length
	ndAssert("c06-alloc-proportional-to-input", used <= 1<<20+1024*uint64(len(data)))
	ndCover("c06-from-ran", true)
}

// ---------- (d) ToCBOR / FromCBOR round trip with the exact element codec ----------

func VerifC15rt() {
	n := ndInt("n")
	ndAssume(n >= 0 && n <= ndParam("maxn", 2))
	var em cbor.EncMode = verifExactEM{}
	var dm cbor.DecMode = verifExactDM{}
	if !ndSymbolic() {
		em, dm = verifRealModes()
	}
	src := newStructFieldsCBOR()
	var keys []int
	var vals [][]byte
	for i := 0; i < n; i++ {
		k := ndInt(ndName("key", i))
		ndAssume(k >= -ndParam("keyrange", 300) && k <= ndParam("keyrange", 300))
		v := verifGenItem(ndName("val", i))
		if err := src.Add(k, cbor.RawMessage(v)); err != nil {
			ndAssert("rt-add-fails-only-on-duplicate", !verifDistinct(append(keys, k)))
			return
		}
		keys = append(keys, k)
		vals = append(vals, v)
	}
	ndAssert("rt-add-rejects-duplicates", verifDistinct(keys))
	var enc []byte
	var err error
	if ndTry(func() { enc, err = src.ToCBOR(em) }) {
		return
	}
	ndAssert("rt-encode-ok", err == nil)
	if err != nil {
		return
	}
	// independent reading of the output: head(5, n) then key/value pairs in insertion order
	want := verifHead(5, uint64(n))
	for i := 0; i < n; i++ {
		want = append(want, verifEncInt(keys[i])...)
		want = append(want, vals[i]...)
	}
	ndAssert("rt-wire-format", len(enc) == len(want) && ndBytesEqual(enc, want))
	dst := newStructFieldsCBOR()
	var derr error
	if ndTry(func() { derr = dst.FromCBOR(dm, enc) }) {
		return
	}
	ndAssert("rt-decode-own-output", derr == nil)
	if derr != nil {
		return
	}
	same := len(dst.Keys) == n && len(dst.Fields) == n
	for i := 0; same && i < n; i++ {
		v, has := dst.Fields[keys[i]]
		same = dst.Keys[i] == keys[i] && has && len(v) == len(vals[i]) && ndBytesEqual(v, vals[i])
	}
	ndAssert("rt-roundtrip-identity", same)
	ndCover("rt-two", n == 2)
	ndCover("rt-empty", n == 0)
}

// verifGenItem: a well-formed CBOR item of the modelled family: one head byte of major
// 0/1/7 (ai < 24, not the break/simple-extension forms), or a bstr with 0..2 content bytes.
func verifGenItem(name string) []byte {
	kind := ndUint8(name + ".kind")
	ndAssume(kind < 4)
	ai := ndUint8(name + ".ai")
	switch kind {
	case 0:
		ndAssume(ai < 24)
		return []byte{ai}
	case 1:
		ndAssume(ai < 24)
		return []byte{0x20 | ai}
	case 2:
		ndAssume(ai >= 20 && ai <= 22) // false, true, null
		return []byte{0xe0 | ai}
	}
	ndAssume(ai <= 2)
	l := ndConcrete(int(ai))
	out := []byte{0x40 | ai}
	b := ndBytes(name + ".content")
	ndAssume(len(b) == l)
	return append(out, b...)
}

// ---------- (b) ToCBOR map header for EVERY entry count (symbolic n) ----------

func VerifC15hdr() {
	n := ndInt("n")
	ndAssume(n >= 0 && n <= ndParam("maxn", 70000))
	var em cbor.EncMode = verifExactEM{}
	if !ndSymbolic() {
		em, _ = verifRealModes()
	}
	sf := newStructFieldsCBOR()
	sf.Keys = ndFakeLenInts(n)
	if !ndSymbolic() {
		for i := 0; i < n; i++ {
			sf.Fields[i] = cbor.RawMessage{0x00}
		}
	}
	var out []byte
	var err error
	sofar, cut := ndAtFirstLoop("ToCBOR", func() { out, err = sf.ToCBOR(em) })
	want := verifHead(5, uint64(n))
	if cut {
		// everything written before the first key/value pair is exactly head(major 5, n)
		ndAssert("hdr-is-rfc8949-head-of-entry-count", verifSameBytes(sofar, want))
	} else {
		ndAssert("hdr-is-rfc8949-head-of-entry-count", err == nil && len(out) >= len(want) && verifSameBytes(out[:len(want)], want) && (n > 0 || len(out) == 1))
	}
	ndCover("hdr-23", n == 23)
	ndCover("hdr-24", n == 24)
	ndCover("hdr-255", n == 255)
	ndCover("hdr-256", n == 256)
	ndCover("hdr-65535", n == 65535)
	ndCover("hdr-65536", n == 65536)
	ndCover("hdr-0", n == 0)
}

// ---------- ordered field map: Add / Delete / Get / Has keep Keys and Fields in step ----------

func VerifC15crud() {
	n := ndConcrete(verifChoice("n", 5))
	o := newStructFieldsCBOR()
	var keys []int
	for i := 0; i < n; i++ {
		k := ndInt(ndName("key", i))
		if !verifDistinct(append(keys, k)) {
			ndAssert("crud-add-duplicate-is-error", o.Add(k, cbor.RawMessage{byte(i)}) != nil && len(o.Keys) == len(keys))
			return
		}
		if o.Add(k, cbor.RawMessage{byte(i)}) != nil {
			ndAssert("crud-add-distinct-succeeds", false)
			return
		}
		keys = append(keys, k)
	}
	del := ndInt("delete.key")
	var want []int
	for _, k := range keys {
		if k != del {
			want = append(want, k)
		}
	}
	if ndTry(func() { o.Delete(del) }) {
		return
	}
	same := len(o.Keys) == len(want) && len(o.Fields) == len(want)
	for i := 0; same && i < len(want); i++ {
		v, has := o.Get(want[i])
		same = o.Keys[i] == want[i] && has && o.Has(want[i]) && len(v) == 1
	}
	ndAssert("crud-delete-keeps-insertion-order-and-agreement", same && !o.Has(del))
	ndCover("crud-delete-middle", n == 4 && len(want) == 3 && keys[1] == del)
}

func verifChoice(name string, n int) int {
	k := ndInt(name)
	ndAssume(k >= 0 && k < n)
	return k
}
